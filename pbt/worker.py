"""RPC client for the Rust worker (`lyworker`)."""
import json
import os
import select
import struct
import subprocess
import time

from . import build as _build

MODE_RUN, MODE_REPL, MODE_DUMP, MODE_PEEPHOLE, MODE_RUN_COLLECT, MODE_PING = 0, 1, 2, 3, 4, 5

# gc schedules: (kind, a, b, indices)
NATURAL = ("natural",)
NEVER = ("never",)
EVERY_ALLOC = ("every_alloc",)


def every_kth(k):
    return ("every_kth", k)


def seeded(seed, permille):
    return ("seeded", seed, permille)


def at_indices(idx):
    return ("at_indices", tuple(sorted(set(idx))))


def bytes_threshold(n):
    return ("bytes", n)


_KIND = {"natural": 0, "never": 1, "every_alloc": 2, "every_kth": 3, "seeded": 4, "at_indices": 5, "bytes": 6}

DEFAULT_BUDGET = 20_000_000
MAIN = "/v/main.lay"


def _s(b):
    if isinstance(b, str):
        b = b.encode("utf-8", "surrogatepass") if False else b.encode("utf-8", "replace")
    return struct.pack("<I", len(b)) + b


def encode_request(mode=MODE_RUN, files=None, main=MAIN, lines=(), schedule=NATURAL, force_full=False,
                   caches_disabled=False, peephole_mask=0, budget=DEFAULT_BUDGET, alloc_mode=0, syms=(),
                   stdin=""):
    files = files or {}
    out = [struct.pack("<B", mode), struct.pack("<I", len(files))]
    for p, t in files.items():
        out.append(_s(p))
        out.append(_s(t))
    out.append(_s(main))
    out.append(struct.pack("<I", len(lines)))
    for l in lines:
        out.append(_s(l))
    kind = _KIND[schedule[0]]
    a = b = 0
    idx = ()
    if kind in (3, 6):
        a = schedule[1]
    elif kind == 4:
        a, b = schedule[1], schedule[2]
    elif kind == 5:
        idx = schedule[1]
    out.append(struct.pack("<BQQI", kind, a & (2**64 - 1), b & (2**64 - 1), len(idx)))
    for i in idx:
        out.append(struct.pack("<Q", i))
    out.append(struct.pack("<BBIQB", 1 if force_full else 0, 1 if caches_disabled else 0, peephole_mask,
                           budget, alloc_mode))
    out.append(struct.pack("<I", len(syms)))
    for (name, sa, sb, line) in syms:
        out.append(_s(name))
        out.append(struct.pack("<IIH", sa, sb, line))
    out.append(_s(stdin))
    payload = b"".join(out)
    return struct.pack("<I", len(payload)) + payload


class WorkerDied(Exception):
    pass


class Inconclusive(Exception):
    """The request could not be judged (resource cap): the case is discarded and counted, never a violation."""


MEMORY_CAP = 8 << 30
OOM_EXIT = 77


class Worker:
    """One worker process. `call` sends one request and waits for its response.

    A worker that dies (abort, SIGSEGV, ...) or stalls past the watchdog is reported as a
    response with outcome `signal` / `timeout`; a replacement process is spawned lazily."""

    def __init__(self, variant="dbg", repo=None, watchdog_s=30.0, max_requests=4000):
        self.variant = variant
        self.path = _build.binary_path(variant, repo)
        if not os.path.exists(self.path):
            self.path = _build.build(variant, repo)
        self.proc = None
        self.watchdog_s = watchdog_s
        self.count = 0
        self.max_requests = max_requests
        self.restarts = 0

    def _spawn(self):
        def limit():
            # a generated program that doubles a string or a list in a loop must not take the machine down: the worker
            # runs into this cap, leaves with OOM_EXIT and the request counts as inconclusive
            import resource
            resource.setrlimit(resource.RLIMIT_AS, (MEMORY_CAP, MEMORY_CAP))
        self.proc = subprocess.Popen([self.path], stdin=subprocess.PIPE, stdout=subprocess.PIPE,
                                     stderr=subprocess.DEVNULL, bufsize=0, preexec_fn=limit)
        self.count = 0

    def close(self):
        if self.proc is not None:
            try:
                self.proc.stdin.close()
            except Exception:
                pass
            try:
                self.proc.wait(timeout=2)
            except Exception:
                self.proc.kill()
                self.proc.wait()
            self.proc = None

    def _read_exact(self, n, deadline):
        buf = b""
        fd = self.proc.stdout.fileno()
        while len(buf) < n:
            remaining = deadline - time.time()
            if remaining <= 0:
                raise TimeoutError()
            r, _, _ = select.select([fd], [], [], min(remaining, 1.0))
            if not r:
                continue
            chunk = os.read(fd, n - len(buf))
            if not chunk:
                raise WorkerDied()
            buf += chunk
        return buf

    def call_raw(self, frame, watchdog_s=None, _retry=2):
        if self.proc is None or self.proc.poll() is not None or self.count >= self.max_requests:
            self.close()
            self._spawn()
        self.count += 1
        deadline = time.time() + (watchdog_s or self.watchdog_s)
        try:
            self.proc.stdin.write(frame)
            self.proc.stdin.flush()
            hdr = self._read_exact(4, deadline)
            (n,) = struct.unpack("<I", hdr)
            body = self._read_exact(n, deadline)
            return json.loads(body.decode("utf-8", "replace"))
        except TimeoutError:
            self.proc.kill()
            self.proc.wait()
            self.proc = None
            self.restarts += 1
            if _retry:
                # a loaded machine can stretch one request past the watchdog: ask again on a fresh process, twice, with
                # four times the allowance each time (30 s -> 2 min -> 8 min) before calling it a stall
                r = self.call_raw(frame, 4 * (watchdog_s or self.watchdog_s), _retry=_retry - 1)
                if r.get("outcome") != "timeout":
                    r["slow"] = True
                return r
            return {"outcome": "timeout", "code": -1, "stdout": "", "stderr": "", "panic": "watchdog"}
        except (WorkerDied, BrokenPipeError, OSError):
            rc = None
            try:
                rc = self.proc.wait(timeout=5)
            except Exception:
                self.proc.kill()
                rc = self.proc.wait()
            self.proc = None
            self.restarts += 1
            if rc == OOM_EXIT:
                raise Inconclusive("worker ran into its %d GiB address space cap" % (MEMORY_CAP >> 30))
            return {"outcome": "signal", "code": rc if rc is not None else -1, "stdout": "", "stderr": "",
                    "panic": "worker died with status %s" % rc}

    def call(self, **kw):
        watchdog = kw.pop("watchdog_s", None)
        return self.call_raw(encode_request(**kw), watchdog)

    def run(self, source, **kw):
        files = dict(kw.pop("files", None) or {})
        main = kw.pop("main", MAIN)
        files[main] = source
        return self.call(mode=kw.pop("mode", MODE_RUN), files=files, main=main, **kw)

    def ping(self):
        return self.call(mode=MODE_PING)


_pool = {}


def get_worker(variant="dbg"):
    w = _pool.get(variant)
    if w is None:
        w = Worker(variant)
        _pool[variant] = w
    return w


def close_all():
    for w in _pool.values():
        w.close()
    _pool.clear()
