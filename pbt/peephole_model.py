"""Oracle for C12: an abstract stack machine over symbolic Laythe instructions, an equivalence
check between an instruction sequence and its optimised form, and a line provenance check.

Instructions are tuples (name, a, b) mirroring `laythe_vm::verif::Sym` (name = variant name of
`SymbolicByteCode`, labels carried as their id). The semantics below were written from the
interpreter (`laythe_vm/src/vm/ops.rs`), not from the optimiser:

* the operand stack is symbolic and unbounded below: popping / peeking below what the run itself
  pushed creates the symbols s0 (top on entry), s1, ... lazily;
* locals, box contents, captures and module symbols are symbolic stores (initial content
  ("L"|"B"|"C"|"M", slot)); a store is logged as an effect *and* kept in the store so later loads
  see it; anything that can run foreign code (calls, invokes, launch, send/receive, imports,
  iterator steps) forgets the contents of boxes, captures and module symbols (not of locals);
* everything observable goes to an ordered effect log: stores, calls, property reads/writes,
  operators that can raise, handler bookkeeping, ...;
* `Jump`/`Loop`/`Return`/`Raise` end a run with a control outcome; `JumpIfFalse`/`And`/`Or`/
  `CheckHandler` fork: the taken edge becomes a finished path ("goto l" with the stack the
  interpreter leaves on that edge), the run continues on the fall-through edge with the
  condition added to its path condition;
* `Invoke((n,k))` is *defined* as `GetPropByName(n)` followed by `Call(k)` and `SuperInvoke((n,k))`
  as `GetSuper(n)` followed by `Call(k)`: the meaning the fusing rules intend;
* `Label`, `ArgumentDelimiter`, `PropertySlot`, `InvokeSlot`, `CaptureIndex` do not touch the state.

A run yields a list of paths (path condition, effect log, control outcome, final stack relative
to the symbolic base, final stores). Terms are nested tuples so equality is structural.
"""

NOP = frozenset(("Label", "ArgumentDelimiter", "PropertySlot", "InvokeSlot", "CaptureIndex"))
UNCOND = frozenset(("Jump", "Loop", "Return", "Raise"))
LOAD = {"GetLocal": "L", "GetBox": "B", "GetCapture": "C", "GetModSym": "M"}
STORE = {"SetLocal": "L", "SetBox": "B", "SetCapture": "C", "SetModSym": "M"}
LOAD_OF_STORE = {"SetLocal": "GetLocal", "SetBox": "GetBox", "SetCapture": "GetCapture", "SetModSym": "GetModSym"}
FORGET = ("B", "C", "M")

# generic instructions: name -> (pops(a, b), pushes, peeks(a, b), forgets, logged)
#   result term = (name, a, b, serial, popped operands...)
_G = {
    "Negate": (lambda a, b: 1, 1, 0, False, True),
    "Not": (lambda a, b: 1, 1, 0, False, False),
    "Add": (lambda a, b: 2, 1, 0, False, True),
    "Subtract": (lambda a, b: 2, 1, 0, False, True),
    "Multiply": (lambda a, b: 2, 1, 0, False, True),
    "Divide": (lambda a, b: 2, 1, 0, False, True),
    "Greater": (lambda a, b: 2, 1, 0, False, True),
    "GreaterEqual": (lambda a, b: 2, 1, 0, False, True),
    "Less": (lambda a, b: 2, 1, 0, False, True),
    "LessEqual": (lambda a, b: 2, 1, 0, False, True),
    "Equal": (lambda a, b: 2, 1, 0, False, False),
    "NotEqual": (lambda a, b: 2, 1, 0, False, False),
    "List": (lambda a, b: a, 1, 0, False, True),
    "Tuple": (lambda a, b: a, 1, 0, False, True),
    "Map": (lambda a, b: 2 * a, 1, 0, False, True),
    "Launch": (lambda a, b: a + 1, 0, 0, True, True),
    "Channel": (lambda a, b: 0, 1, 0, False, True),
    "BufferedChannel": (lambda a, b: 1, 1, 0, False, True),
    "Receive": (lambda a, b: 1, 1, 0, True, True),
    "Send": (lambda a, b: 1, 0, 1, True, True),
    "Interpolate": (lambda a, b: a, 1, 0, False, True),
    "IterNext": (lambda a, b: 1, 1, 0, True, True),
    "IterCurrent": (lambda a, b: 1, 1, 0, True, True),
    "Import": (lambda a, b: 0, 1, 0, True, True),
    "ImportSym": (lambda a, b: 0, 1, 0, True, True),
    "Export": (lambda a, b: 0, 0, 0, False, True),
    "LoadGlobal": (lambda a, b: 0, 1, 0, False, True),
    "DeclareModSym": (lambda a, b: 0, 0, 0, False, True),
    "Box": (lambda a, b: 0, 0, 0, False, True),
    "EmptyBox": (lambda a, b: 0, 1, 0, False, True),
    "FillBox": (lambda a, b: 1, 0, 1, False, True),
    "PushHandler": (lambda a, b: 0, 0, 0, False, True),
    "PopHandler": (lambda a, b: 0, 0, 0, False, True),
    "FinishUnwind": (lambda a, b: 0, 0, 0, False, True),
    "GetError": (lambda a, b: 0, 1, 0, False, False),
    "Closure": (lambda a, b: 0, 1, 0, False, True),
    "Method": (lambda a, b: 1, 0, 1, False, True),
    "StaticMethod": (lambda a, b: 1, 0, 1, False, True),
    "Field": (lambda a, b: 0, 0, 1, False, True),
    "Class": (lambda a, b: 0, 1, 0, False, True),
    "Inherit": (lambda a, b: 0, 0, 2, False, True),
    "GetProp": (lambda a, b: 1, 1, 0, False, True),
}
PUSH_CONST = frozenset(("Nil", "True", "False", "Constant", "ConstantLong"))

KNOWN = (frozenset(_G) | NOP | UNCOND | frozenset(LOAD) | frozenset(STORE) | PUSH_CONST |
         frozenset(("Drop", "DropN", "Dup", "GetPropByName", "SetPropByName", "SetProp", "Call", "Invoke",
                    "SuperInvoke", "GetSuper", "JumpIfFalse", "And", "Or", "CheckHandler", "ContinueUnwind")))


class Unknown(Exception):
    pass


def run(seq, start=0):
    """Symbolically execute seq from index `start`. Returns the list of paths."""
    stk = []  # top at the end
    st = {"below": 0, "epoch": 0}
    stores = {}
    log = []
    pc = []
    paths = []

    def pop():
        if stk:
            return stk.pop()
        s = ("s", st["below"])
        st["below"] += 1
        return s

    def peek(k):
        while len(stk) <= k:
            stk.insert(0, ("s", st["below"]))
            st["below"] += 1
        return stk[-1 - k]

    def initial(kind, slot):
        e = st["epoch"]
        if e and kind != "L":
            return (kind, slot, e)
        return (kind, slot)

    def forget():
        st["epoch"] = len(log)  # the log position of the call identifies the unknown new contents
        for k in [k for k in stores if k[0] != "L"]:
            del stores[k]

    def finish(outcome, stack=None, below=None):
        s = list(stk if stack is None else stack)
        b = st["below"] if below is None else below
        # the stack relative to the symbolic base: untouched base cells are not part of the result
        while s and b > 0 and s[0] == ("s", b - 1):
            s.pop(0)
            b -= 1
        fs = tuple(sorted((k, v) for k, v in stores.items() if v != initial(*k)))
        paths.append((tuple(pc), tuple(log), outcome, (b, tuple(s)), fs))

    def get_prop(a):
        v = pop()
        log.append(("getprop", a, v))
        stk.append(("prop", a, v))

    def get_super(a):
        sup = pop()
        recv = pop()
        log.append(("getsuper", a, recv, sup))
        stk.append(("super_method", a, recv, sup))

    def call(k):
        args = [pop() for _ in range(k)]
        args.reverse()
        callee = pop()
        serial = len(log)
        log.append(("call", callee, tuple(args)))
        stk.append(("ret", serial))
        forget()

    n = len(seq)
    i = start
    while i < n:
        name, a, b = seq[i]
        i += 1
        if name in NOP:
            continue
        if name == "Drop":
            pop()
        elif name == "DropN":
            for _ in range(a):
                pop()
        elif name == "Dup":
            stk.append(peek(0))
        elif name in LOAD:
            key = (LOAD[name], a)
            v = stores.get(key)
            stk.append(initial(*key) if v is None else v)
        elif name in STORE:
            key = (STORE[name], a)
            v = peek(0)
            stores[key] = v
            log.append(("store", key, v))
        elif name in PUSH_CONST:
            stk.append((name, a))
        elif name == "GetPropByName":
            get_prop(a)
        elif name == "Call":
            call(a)
        elif name == "Invoke":
            # by definition: the property read on the top of the stack followed by the call
            get_prop(a)
            call(b)
        elif name == "GetSuper":
            get_super(a)
        elif name == "SuperInvoke":
            get_super(a)
            call(b)
        elif name == "SetPropByName" or name == "SetProp":
            v = pop()
            inst = pop()
            log.append((name, a, inst, v))
            stk.append(v)
        elif name == "Jump" or name == "Loop":
            finish(("goto", a))
            return paths
        elif name == "Return":
            v = pop()
            finish(("return", v))
            return paths
        elif name == "Raise":
            v = pop()
            log.append(("raise", v))
            finish(("raise", v))
            return paths
        elif name == "ContinueUnwind":
            log.append(("continue_unwind",))
            finish(("unwind",))
            return paths
        elif name == "JumpIfFalse":
            c = pop()
            pc.append(("falsey", c))
            finish(("goto", a))
            pc[-1] = ("truthy", c)
        elif name == "And":
            c = peek(0)
            pc.append(("falsey", c))
            finish(("goto", a))
            pc[-1] = ("truthy", c)
            pop()
        elif name == "Or":
            c = peek(0)
            pc.append(("truthy", c))
            finish(("goto", a))
            pc[-1] = ("falsey", c)
            pop()
        elif name == "CheckHandler":
            c = pop()
            log.append(("check_handler", c))
            pc.append(("no_match", c))
            finish(("goto", a))
            pc[-1] = ("match", c)
        else:
            g = _G.get(name)
            if g is None:
                raise Unknown(name)
            pops, pushes, peeks, forgets, logged = g
            ops = [pop() for _ in range(pops(a, b))]
            seen = tuple(peek(k) for k in range(peeks)) if peeks else ()
            serial = len(log)
            if logged:
                log.append((name, a, b, tuple(ops), seen))
            if pushes:
                stk.append((name, a, b, serial, tuple(ops)) if logged else (name, a, b, tuple(ops)))
            if forgets:
                forget()
    finish(("end",))
    return paths


# ------------------------------------------------------------------------------------- equivalence
def label_positions(seq):
    """label id -> list of indices of Label(id)"""
    out = {}
    for i, (name, a, b) in enumerate(seq):
        if name == "Label":
            out.setdefault(a, []).append(i)
    return out


ASPECTS = ("path condition", "effect log", "control outcome", "stack", "stores")


def diff_paths(pi, po):
    """None when the path lists agree, else a short description of the first difference."""
    if pi == po:
        return None
    if len(pi) != len(po):
        return "number of paths differs: %d vs %d" % (len(pi), len(po))
    for k, (x, y) in enumerate(zip(pi, po)):
        if x != y:
            for aspect, u, v in zip(ASPECTS, x, y):
                if u != v:
                    return "path %d: %s differs:\n      original : %s\n      optimised: %s" % (k, aspect, show(u),
                                                                                               show(v))
    return "paths differ"


def show(t):
    if isinstance(t, tuple):
        if len(t) == 2 and t[0] == "s" and isinstance(t[1], int):
            return "s%d" % t[1]
        if len(t) == 2 and t[0] in ("L", "B", "C", "M") and isinstance(t[1], int):
            return "%s%d" % t
        return "(" + " ".join(show(x) for x in t) + ")"
    return str(t)


def show_paths(paths):
    out = []
    for k, (pc, log, outcome, (below, stack), stores) in enumerate(paths):
        out.append("    path %d: if %s: effects %s; then %s; stack = base minus %d plus %s; stores %s" %
                   (k, show(pc) if pc else "true", show(log), show(outcome), below, show(stack), show(stores)))
    return "\n".join(out)


def equivalence(inp, out):
    """Compare the original and the optimised sequence.

    Returns None or (class, detail) with class in {"labels", "semantics"}."""
    li, lo = label_positions(inp), label_positions(out)
    for l, pos in li.items():
        got = lo.get(l, [])
        if len(got) == 0:
            return ("labels", "Label(%d) of the input is missing from the output" % l)
        if len(got) > 1:
            return ("labels", "Label(%d) occurs %d times in the output" % (l, len(got)))
    for l in lo:
        if l not in li:
            return ("labels", "the output contains Label(%d) which the input does not have" % l)
    starts = [("function entry", 0, 0)]
    for l in sorted(li):
        starts.append(("Label(%d)" % l, li[l][0] + 1, lo[l][0] + 1))
    for what, si, so in starts:
        pi = run(inp, si)
        po = run(out, so)
        d = diff_paths(pi, po)
        if d is not None:
            return ("semantics", "started at %s: %s\n  original paths:\n%s\n  optimised paths:\n%s" %
                    (what, d, show_paths(pi), show_paths(po)))
    return None


# ------------------------------------------------------------------------------------------- lines
def removable_positions(inp):
    """Positions the optimiser may delete: ArgumentDelimiter, and everything between an
    unconditional transfer and the next Label."""
    out = []
    dead = False
    for (name, a, b) in inp:
        if name == "Label":
            dead = False
        out.append("dead_code" if dead else ("argument_delimiter" if name == "ArgumentDelimiter" else None))
        if name in UNCOND:
            dead = True
    return out


def align(inp, out, lines):
    """Reconstruct which input instructions every output instruction stands for, using the line of
    the output instruction (input instruction i carries line i + 1) and the shape of the rewrites.

    Returns (rule applications, None) or (None, detail). An application is (rule, first, last)."""
    n = len(inp)
    removable = removable_positions(inp)
    apps = []
    pos = 0
    fused = None
    for j, o in enumerate(out):
        p = lines[j] - 1
        if not 0 <= p < n:
            return None, "output instruction %d %s carries line %d which no input instruction has" % (
                j, fmt1(o), lines[j])
        src = inp[p]
        name = o[0]
        if name == "InvokeSlot" and fused is not None and fused[0] <= p <= fused[1]:
            fused = None
            continue
        fused = None
        group = None
        rule = None
        if o == src:
            group = (p, p)
            if name in STORE and p + 2 < n + 0 and inp[p + 1][0] == "Drop" and \
                    inp[p + 2] == (LOAD_OF_STORE[name], o[1], 0):
                nxt_is_drop = j + 1 < len(out) and out[j + 1][0] == "Drop" and lines[j + 1] - 1 == p + 1
                if not nxt_is_drop:
                    group, rule = (p, p + 2), "eliminate_drop"
        elif name == "DropN":
            if src[0] == "Drop":
                # a DropN stands for the o[1] consecutive Drops that start at its line (a run longer than
                # 255 is split over several DropN, each carrying the line of its own first Drop)
                k = max(1, o[1])
                for gs in range(max(pos, p - k + 1), p + 1):
                    ge = gs + k - 1
                    if ge < n and all(inp[q][0] == "Drop" for q in range(gs, ge + 1)) and \
                            all(removable[q] is not None for q in range(pos, gs)):
                        group, rule = (gs, ge), "drop"
                        break
        elif name == "Invoke":
            for gs in (p, p - 1, p - 2):
                if gs >= 0 and gs + 2 < n and inp[gs] == ("GetPropByName", o[1], 0) and \
                        inp[gs + 1][0] == "PropertySlot" and inp[gs + 2] == ("Call", o[2], 0):
                    group, rule = (gs, gs + 2), "invoke"
                    fused = group
                    break
        elif name == "SuperInvoke":
            for gs in (p, p - 1):
                if gs >= 0 and gs + 1 < n and inp[gs] == ("GetSuper", o[1], 0) and inp[gs + 1] == ("Call", o[2], 0):
                    group, rule = (gs, gs + 1), "invoke_super"
                    fused = group
                    break
        elif name == "Dup":
            if src[0] in LOAD and p >= 1 and inp[p - 1] == src:
                group, rule = (p, p), "load_multiple"
        elif name in STORE:
            # a store that took the line of the drop / reload it absorbed
            for gs in (p - 1, p - 2):
                if gs >= 0 and gs + 2 < n and inp[gs] == o and inp[gs + 1][0] == "Drop" and \
                        inp[gs + 2] == (LOAD_OF_STORE[name], o[1], 0):
                    group, rule = (gs, gs + 2), "eliminate_drop"
                    break
        if group is None:
            return None, ("output instruction %d %s carries line %d, the line of input instruction %d %s which it "
                          "is not derived from" % (j, fmt1(o), lines[j], p, fmt1(src)))
        gs, ge = group
        if gs < pos:
            return None, ("output instruction %d %s carries line %d (input instruction %d) but the output already "
                          "accounted for the input up to instruction %d: lines out of order" %
                          (j, fmt1(o), lines[j], p, pos - 1))
        for q in range(pos, gs):
            if removable[q] is None:
                return None, ("output instruction %d %s carries line %d (input instruction %d %s), which leaves "
                              "input instruction %d %s unaccounted for: line cursor out of step" %
                              (j, fmt1(o), lines[j], p, fmt1(src), q, fmt1(inp[q])))
            apps.append((removable[q], q, q))
        if rule is not None:
            apps.append((rule, gs, ge))
        pos = ge + 1
    for q in range(pos, n):
        if removable[q] is None:
            return None, "input instruction %d %s is not accounted for by any output instruction" % (q, fmt1(inp[q]))
        apps.append((removable[q], q, q))
    return apps, None


# -------------------------------------------------------------------------------- slot well-formedness
SLOT_OF = {"GetPropByName": "PropertySlot", "SetPropByName": "PropertySlot", "Invoke": "InvokeSlot",
           "SuperInvoke": "InvokeSlot"}


def slots_paired(seq):
    """Every instruction with an inline cache operand is directly followed by its slot filler and
    every slot filler directly follows such an instruction (ArgumentDelimiter/Label are zero length
    but a slot filler behind them would still be decoded as the operand; they never occur there)."""
    prev = None
    for (name, a, b) in seq:
        want = SLOT_OF.get(prev)
        if want is not None and name != want:
            return False
        if name in ("PropertySlot", "InvokeSlot") and SLOT_OF.get(prev) != name:
            return False
        prev = name
    return SLOT_OF.get(prev) is None


# ----------------------------------------------------------------------------------------- patterns
def patterns(inp):
    """Names of the optimiser rules whose *shape* occurs in the input (operand guards ignored)."""
    found = set()
    n = len(inp)
    for i in range(n):
        a = inp[i][0]
        b = inp[i + 1][0] if i + 1 < n else None
        c = inp[i + 2][0] if i + 2 < n else None
        if a == "Drop" and b == "Drop":
            found.add("drop")
        if a == "GetPropByName" and b == "PropertySlot" and c == "Call":
            found.add("invoke")
        if a == "GetSuper" and b == "Call":
            found.add("invoke_super")
        if a in STORE and b == "Drop" and c == LOAD_OF_STORE[a]:
            found.add("eliminate_drop")
        if a in LOAD and b == a:
            found.add("load_multiple")
        if a in UNCOND:
            found.add("dead_code")
        if a == "ArgumentDelimiter":
            found.add("argument_delimiter")
    return found


def longest_run(inp, name):
    best = cur = 0
    for ins in inp:
        if ins[0] == name:
            cur += 1
            best = max(best, cur)
        else:
            cur = 0
    return best


# ------------------------------------------------------------------------------------------ printing
def fmt1(ins):
    name, a, b = ins
    if name in ("Invoke", "SuperInvoke", "ImportSym", "DeclareModSym", "PushHandler", "CaptureIndex"):
        return "%s(%d,%d)" % (name, a, b)
    if name in ("Return", "Negate", "Add", "Subtract", "Multiply", "Divide", "Not", "Nil", "True", "False", "Channel",
                "BufferedChannel", "Receive", "Send", "Drop", "Dup", "EmptyBox", "FillBox", "GetError",
                "FinishUnwind", "ContinueUnwind", "PopHandler", "Raise", "ArgumentDelimiter", "Inherit",
                "InvokeSlot", "PropertySlot", "Equal", "NotEqual", "Greater", "GreaterEqual", "Less", "LessEqual"):
        return name
    return "%s(%d)" % (name, a)


def fmt(seq, limit=60):
    """Readable rendering; long runs of one instruction are written `Drop x 256`."""
    parts = []
    i = 0
    n = len(seq)
    while i < n:
        j = i
        while j + 1 < n and seq[j + 1] == seq[i]:
            j += 1
        if j - i + 1 >= 4:
            parts.append("%s x %d" % (fmt1(seq[i]), j - i + 1))
        else:
            parts.extend(fmt1(seq[i]) for _ in range(j - i + 1))
        i = j + 1
    if len(parts) > limit:
        parts = parts[:limit] + ["... (%d instructions)" % n]
    return " ".join(parts) if parts else "(empty)"
