"""Library free structural shrinker (delta debugging over the nested tuple/list case).

Hypothesis' own shrinker works on the draw sequence, which is slow and weak for the
context threading program generators; this pass works on the generated value itself:
it removes chunks from any list in the case and replaces expression nodes by one of
their sub-expressions or by a literal, keeping a candidate only when the check still
fails with the same signature."""

EXPR_TAGS = {"num", "str", "mlstr", "nil", "true", "false", "var", "group", "bin", "un", "tern", "assign", "opassign", "call",
             "prop", "index", "list", "tuple", "map", "interp", "lambda", "self", "at", "super", "chan", "recv", "send"}


def _is_expr(n):
    return isinstance(n, tuple) and len(n) > 0 and isinstance(n[0], str) and n[0] in EXPR_TAGS


def _paths(node, path=()):
    """All (path, node) pairs in breadth first order."""
    queue = [(path, node)]
    while queue:
        p, n = queue.pop(0)
        yield p, n
        if isinstance(n, (tuple, list)):
            for i, c in enumerate(n):
                if isinstance(c, (tuple, list, dict)):
                    queue.append((p + (i,), c))
        elif isinstance(n, dict):
            for k, c in n.items():
                if isinstance(c, (tuple, list, dict)):
                    queue.append((p + (k,), c))


def _replace(node, path, new):
    if not path:
        return new
    i = path[0]
    if isinstance(node, dict):
        d = dict(node)
        d[i] = _replace(node[i], path[1:], new)
        return d
    if isinstance(node, tuple):
        return node[:i] + (_replace(node[i], path[1:], new),) + node[i + 1:]
    return node[:i] + [_replace(node[i], path[1:], new)] + node[i + 1:]


def _size(node):
    if isinstance(node, (tuple, list)):
        return 1 + sum(_size(c) for c in node)
    if isinstance(node, dict):
        return 1 + sum(_size(c) for c in node.values())
    return 1


def candidates(case):
    # 1. chunk removal from lists, biggest chunks and shallowest lists first
    for path, n in _paths(case):
        if isinstance(n, list) and len(n) > 0:
            size = len(n)
            chunk = size
            while chunk >= 1:
                for start in range(0, size, chunk):
                    new = n[:start] + n[start + chunk:]
                    if len(new) < size:
                        yield _replace(case, path, new)
                chunk //= 2
    # 2. expression simplification
    for path, n in _paths(case):
        if _is_expr(n) and n[0] not in ("num", "nil", "true", "false", "var", "self"):
            subs = [c for c in n if _is_expr(c)]
            # grandchildren through lists (call args, list items)
            for c in n:
                if isinstance(c, list):
                    subs.extend(x for x in c if _is_expr(x))
            for s in subs:
                yield _replace(case, path, s)
            yield _replace(case, path, ("num", 0.0))
            yield _replace(case, path, ("nil",))
    # 3. unwrap blocks: replace an if/while/for/try statement by its body statements
    for path, n in _paths(case):
        if isinstance(n, list):
            for i, s in enumerate(n):
                if isinstance(s, tuple) and s and s[0] in ("if", "while", "for", "try"):
                    body = s[2] if s[0] in ("if", "while") else (s[3] if s[0] == "for" else s[1])
                    if isinstance(body, list):
                        yield _replace(case, path, n[:i] + body + n[i + 1:])


def shrink(case, still_fails, budget=1500):
    """Greedy fixpoint. `still_fails(candidate) -> bool` must be exception safe."""
    best = case
    best_size = _size(case)
    improved = True
    while improved and budget > 0:
        improved = False
        for cand in candidates(best):
            if budget <= 0:
                break
            sz = _size(cand)
            if sz >= best_size:
                continue
            budget -= 1
            if still_fails(cand):
                best, best_size = cand, sz
                improved = True
                break
    return best
