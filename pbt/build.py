"""Build the Rust worker against a Laythe tree (default /repo) in one of four variants."""
import hashlib
import os
import shutil
import subprocess
import sys
import time

VERIF = os.path.dirname(os.path.dirname(os.path.abspath(__file__)))
VARIANTS = ("dbg", "rel", "nan-dbg", "nan-rel")


def repo_path():
    return os.path.abspath(os.environ.get("VERIF_REPO", "/repo"))


def _tag(repo):
    if repo == "/repo":
        return "repo"
    return "alt-" + hashlib.sha1(repo.encode()).hexdigest()[:10]


def build_dir(repo=None):
    repo = repo or repo_path()
    return os.path.join(VERIF, "build", _tag(repo))


def binary_path(variant, repo=None):
    repo = repo or repo_path()
    nan = variant.startswith("nan-")
    profile = variant.split("-")[-1]
    tdir = os.path.join(VERIF, "target", _tag(repo), "nan" if nan else "enum")
    return os.path.join(tdir, profile, "lyworker")


def build(variant, repo=None, quiet=True):
    """Build (incrementally) and return the worker binary path. Raises on failure."""
    assert variant in VARIANTS, variant
    repo = repo or repo_path()
    bdir = build_dir(repo)
    os.makedirs(bdir, exist_ok=True)
    tmpl = open(os.path.join(VERIF, "harness", "worker", "Cargo.toml.in")).read()
    manifest = tmpl.replace("@REPO@", repo).replace("@VERIF@", VERIF)
    mpath = os.path.join(bdir, "Cargo.toml")
    if not os.path.exists(mpath) or open(mpath).read() != manifest:
        with open(mpath, "w") as f:
            f.write(manifest)
    lock = os.path.join(bdir, "Cargo.lock")
    if not os.path.exists(lock):
        shutil.copy(os.path.join(repo, "Cargo.lock"), lock)
    nan = variant.startswith("nan-")
    profile = variant.split("-")[-1]
    tdir = os.path.join(VERIF, "target", _tag(repo), "nan" if nan else "enum")
    cmd = ["cargo", "build", "--offline", "--manifest-path", mpath, "--profile", profile,
           "--target-dir", tdir]
    if nan:
        cmd += ["--features", "nan"]
    env = dict(os.environ)
    env["CARGO_NET_OFFLINE"] = "true"
    env.setdefault("RUSTFLAGS", "-Awarnings")
    t0 = time.time()
    proc = subprocess.run(cmd, env=env, stdout=subprocess.PIPE, stderr=subprocess.STDOUT, text=True)
    if proc.returncode != 0:
        sys.stderr.write(proc.stdout[-6000:])
        raise RuntimeError("worker build failed for variant %s (repo %s)" % (variant, repo))
    if not quiet:
        sys.stderr.write("built %s in %.1fs\n" % (variant, time.time() - t0))
    return binary_path(variant, repo)


if __name__ == "__main__":
    vs = sys.argv[1:] or list(VARIANTS)
    for v in vs:
        print(build(v, quiet=False))
