"""Shared oracles: classify vm responses and compare them with the reference evaluator."""
import re

from .runner import Failure

CRASH_OUTCOMES = ("panic", "signal", "budget", "timeout")
ADDR = re.compile(r"0x[0-9a-fA-F]{6,}")


def norm_msg(msg):
    msg = re.sub(r"0x[0-9a-fA-F]+", "0xADDR", msg or "")
    msg = re.sub(r"\d+", "N", msg)
    return msg[:90]


def panic_sig(r):
    """Normalised signature of a crash response."""
    o = r.get("outcome")
    if o == "panic":
        p = r.get("panic", "")
        msg, _, loc = p.rpartition(" @ ")
        loc = loc.replace("/repo/", "")
        if loc.startswith("/"):
            # scratch copies of the repository: keep the path from the crate name on
            m = re.search(r"(laythe_[a-z]+/.*)$", loc)
            loc = m.group(1) if m else loc
        return "panic/%s/%s" % (loc, norm_msg(msg))
    if o == "signal":
        return "signal/%s" % r.get("code")
    return o


def crash_failure(prop, r, source=None, what="vm"):
    """Failure for a crash class response (None if the response is not a crash)."""
    o = r.get("outcome")
    if o in CRASH_OUTCOMES:
        sig = "%s/crash/%s" % (prop, panic_sig(r))
        return Failure(sig, "%s ended in %s: %s\n--- source\n%s" % (what, o, r.get("panic"), source),
                       {"source": source, "response": brief(r)})
    if r.get("drop_panicked"):
        return Failure("%s/crash/drop-panic" % prop, "dropping the vm panicked: %s\n--- source\n%s" %
                       (r.get("drop_panic"), source), {"source": source, "response": brief(r)})
    if r.get("alloc", {}).get("bad_frees"):
        return Failure("%s/crash/bad-free" % prop, "a block was released twice or never allocated\n--- source\n%s" %
                       source, {"source": source})
    return None


def brief(r):
    return {"outcome": r.get("outcome"), "code": r.get("code"), "stdout": (r.get("stdout") or "")[:1500],
            "stderr": (r.get("stderr") or "")[:1500], "panic": r.get("panic")}


def vm_error_class(r):
    """Class named on the last line of an uncaught error traceback (None when there is none)."""
    lines = [l for l in (r.get("stderr") or "").split("\n") if l.strip()]
    if not lines:
        return None
    m = re.match(r"^([A-Za-z_][A-Za-z0-9_]*): ", lines[-1])
    return m.group(1) if m else None


def vm_error_message(r):
    lines = [l for l in (r.get("stderr") or "").split("\n") if l.strip()]
    if not lines:
        return None
    m = re.match(r"^([A-Za-z_][A-Za-z0-9_]*): (.*)$", lines[-1])
    return m.group(2) if m else None


def compare_model(prop, res, r, source, what="vm", check_message=False):
    """Compare a reference evaluator Result with a worker response. Returns Failure or None."""
    f = crash_failure(prop, r, source, what)
    if f is not None:
        return f
    exp_out = res.stdout()
    got_out = r.get("stdout") or ""
    info = {"source": source, "expected_stdout": exp_out[:2000], "response": brief(r),
            "expected_outcome": res.outcome, "expected_error": res.err_class}
    if res.outcome == "ok":
        if r["outcome"] != "ok" or r["code"] != 0:
            return Failure("%s/outcome/expected-ok-got-%s%s" % (prop, r["outcome"], _cls(r)),
                           "%s: model finishes normally, vm: %s %s\n%s\n--- source\n%s" %
                           (what, r["outcome"], r["code"], (r.get("stderr") or "")[-600:], source), info)
        if got_out != exp_out:
            return Failure("%s/stdout" % prop, diff_detail(what, exp_out, got_out, source), info)
        return None
    if res.outcome == "error":
        if r["outcome"] != "runtime_error":
            return Failure("%s/outcome/expected-%s-got-%s%s" % (prop, res.err_class, r["outcome"], _diag(r)),
                           "%s: model raises %s (%s), vm outcome %s\nstdout %r\n--- source\n%s" %
                           (what, res.err_class, res.err_msg, r["outcome"], got_out[-300:], source), info)
        if got_out != exp_out:
            return Failure("%s/stdout-before-error" % prop, diff_detail(what, exp_out, got_out, source), info)
        cls = vm_error_class(r)
        ok = cls == res.err_class
        if not ok:
            return Failure("%s/error-class/%s-vs-%s" % (prop, res.err_class, cls),
                           "%s: model raises %s (%s), vm reports %s\n%s\n--- source\n%s" %
                           (what, res.err_class, res.err_msg, cls, (r.get("stderr") or "")[-600:], source), info)
        if r["code"] != 1:
            return Failure("%s/exit-status" % prop, "%s: uncaught error but status %s" % (what, r["code"]), info)
        if check_message and res.err_msg is not None:
            if vm_error_message(r) != res.err_msg:
                return Failure("%s/error-message" % prop, "%s: message %r vs %r\n--- source\n%s" %
                               (what, res.err_msg, vm_error_message(r), source), info)
        return None
    if res.outcome == "exit":
        want = "ok" if res.code == 0 else "runtime_error"
        if r["outcome"] != want or r["code"] != res.code:
            return Failure("%s/exit-code" % prop, "%s: model exits with %d, vm: %s %s\n--- source\n%s" %
                           (what, res.code, r["outcome"], r["code"], source), info)
        if got_out != exp_out:
            return Failure("%s/stdout-before-exit" % prop, diff_detail(what, exp_out, got_out, source), info)
        return None
    raise AssertionError(res.outcome)


def _cls(r):
    if r.get("outcome") == "compile_error":
        return _diag(r)
    c = vm_error_class(r)
    return "-" + c if c else ""


def _diag(r):
    """The first compile diagnostic, as part of a signature (so that shrinking cannot wander to another rejection)."""
    if r.get("outcome") != "compile_error":
        return ""
    for line in (r.get("stderr") or "").split("\n"):
        if line.startswith("error"):
            return "/" + re.sub(r"[^A-Za-z ]", "", re.sub(r"variable \S+|'[^']*'", "", line))[:60].strip().replace(" ", "-")
    return "/no-diagnostic"


def diff_detail(what, exp, got, source):
    el, gl = exp.split("\n"), got.split("\n")
    i = 0
    while i < len(el) and i < len(gl) and el[i] == gl[i]:
        i += 1
    return ("%s: output differs at line %d\n expected: %r\n      got: %r\n(expected %d lines, got %d)\n--- source\n%s" %
            (what, i + 1, el[i] if i < len(el) else None, gl[i] if i < len(gl) else None, len(el), len(gl), source))


def same_behaviour(prop, a, b, source, what_a, what_b, tag="differential"):
    """Differential oracle: two runs that must not differ. Returns Failure or None."""
    for r, w in ((a, what_a), (b, what_b)):
        f = crash_failure(prop, r, source, w)
        if f is not None:
            return f
    info = {"source": source, what_a: brief(a), what_b: brief(b)}
    if ADDR.search(a.get("stdout") or "") or ADDR.search(b.get("stdout") or ""):
        # the program printed an address: not deterministic, nothing to compare
        return None
    if a["outcome"] != b["outcome"] or a["code"] != b["code"]:
        return Failure("%s/%s/outcome" % (prop, tag),
                       "%s: %s %s / %s: %s %s\n%s\n%s\n--- source\n%s" %
                       (what_a, a["outcome"], a["code"], what_b, b["outcome"], b["code"],
                        (a.get("stderr") or "")[-300:], (b.get("stderr") or "")[-300:], source), info)
    if a["stdout"] != b["stdout"]:
        return Failure("%s/%s/stdout" % (prop, tag), diff_detail("%s vs %s" % (what_a, what_b), a["stdout"],
                                                                   b["stdout"], source), info)
    ca, cb = vm_error_class(a), vm_error_class(b)
    if ca != cb:
        return Failure("%s/%s/error-class" % (prop, tag), "%s reports %s, %s reports %s\n--- source\n%s" %
                       (what_a, ca, what_b, cb, source), info)
    return None
