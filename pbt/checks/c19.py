"""C19 An interactive session behaves like the same declarations in one file."""
from .. import worker as W
from ..lang import gen, printer
from ..oracle import ADDR, crash_failure, diff_detail
from ..runner import Failure, Outcome
from .common import run_model, short

PROPERTY = "C19"
LEVEL = "exploration"
VARIANTS = ("dbg", "rel")
RULE = ("Hypothesis draws a history of 3-15 single-line prompt entries: let, fn (some taking an object and containing "
        "an invoke and a property site), class (init assigning a field, methods reading it and invoking each other, "
        "subclasses with super calls), instance creation, prints of calls into definitions from any earlier entry, "
        "reassignments, field writes, and erroneous entries that have no effect before failing (two syntax errors, a "
        "bare raise, an undeclared name, a malformed class). The scripted lines are fed to Vm::repl on the debug and "
        "release workers; stdout with prompts stripped must equal stdout of Vm::run on the concatenation of the "
        "non-erroneous lines (differential) and the reference evaluator's output, and the session must reach end of "
        "input with status 0. Non-trivial: an entry calls something defined >= 2 entries earlier whose body has a "
        "property or invoke site; distinct by history text.")
ASSUMPTIONS = ["each entry is one line; erroneous entries are chosen so that they have no effect before failing",
               "the prompt text 'laythe:> ' never occurs in program output"]
GATES = {"calls-earlier-site": 0.30, "after-bad-entry": 0.30}
LEVEL_TEXT = ("Differential search (prompt session vs the same lines as one module) over generated entry histories, "
              "model as third voice. Bounded by the generated entry kinds and history length.")
LEVEL_NOTE = "Trusted base: worker harness (scripted read_line with end of input), printer, reference evaluator."
TECHNIQUE = "property-based testing (Hypothesis): stateful history generation + differential oracle (repl vs file)"


def cases(tier):
    return 2400 if tier == "quick" else 240000


def strategy(hazards):
    return gen.repl_history()


def run_case(case, ctx):
    history = case
    lines = []
    good = []
    labels = []
    site_defs = {}
    nontrivial = False
    saw_bad = False
    for idx, (kind, payload) in enumerate(history):
        if kind == "bad":
            lines.append(payload + "\n")
            saw_bad = True
            continue
        try:
            text = printer.to_source([payload], mode="compact")[0]
        except ValueError:
            return Outcome(discarded="unprintable")
        lines.append(text + "\n")
        good.append(payload)
        if payload[0] in ("fn", "class") and ("prop" in repr(payload)):
            site_defs[payload[1]] = idx
        if payload[0] in ("print", "let", "expr"):
            r = repr(payload)
            for name, at in site_defs.items():
                if "'%s'" % name in r and idx - at >= 2:
                    nontrivial = True
            if saw_bad:
                labels.append("after-bad-entry")
        if payload[0] == "import":
            labels.append("imports-at-the-prompt")
    if nontrivial:
        labels.append("calls-earlier-site")
    labels = sorted(set(labels))
    file_src = "".join(l for l, (k, _) in zip(lines, history) if k == "ok")
    texts = {path: printer.to_source(stmts)[0] for path, stmts in gen.REPL_FILES.items()}
    texts.update(gen.REPL_BROKEN)
    res, why = run_model(good, None, files=gen.REPL_FILES, fibers=True)
    fail = None
    runs = 0
    for v in ("dbg", "rel"):
        w = ctx.worker(v)
        rr = w.call(mode=W.MODE_REPL, lines=lines, main="/v/repl", files=texts, budget=400000)
        rf = w.run(file_src, files=texts)
        runs += 2
        session = "".join(lines)
        fail = crash_failure(PROPERTY, rr, session, "repl session on " + v)
        if fail is None and (rr.get("outcome") != "ok" or rr.get("code") != 0):
            fail = Failure("%s/session-status" % PROPERTY, "repl on %s ended with %s %s\n--- session\n%s" %
                           (v, rr.get("outcome"), rr.get("code"), session), {"session": session})
        if fail is None:
            got = (rr.get("stdout") or "").replace("laythe:> ", "")
            if ADDR.search(got) or ADDR.search(rf.get("stdout") or ""):
                return Outcome(discarded="prints-an-address")
            if rf.get("outcome") not in ("ok",):
                # the one-file form failed (e.g. a runtime error in a good line): compare what was printed before
                pass
            if got != (rf.get("stdout") or "") and rf.get("outcome") == "ok":
                fail = Failure("%s/repl-vs-file/stdout" % PROPERTY,
                               diff_detail("repl vs file on " + v, rf.get("stdout") or "", got,
                                           session + "\n--- repl stderr\n" + (rr.get("stderr") or "")[-600:]),
                               {"session": session})
            elif res is not None and res.outcome == "ok" and got != res.stdout():
                fail = Failure("%s/repl-vs-model/stdout" % PROPERTY,
                               diff_detail("repl vs model on " + v, res.stdout(), got,
                                           session + "\n--- repl stderr\n" + (rr.get("stderr") or "")[-600:]),
                               {"session": session})
        if fail is not None:
            break
    return Outcome(key="".join(lines), nontrivial=nontrivial, labels=labels, failure=fail,
                   sample=" | ".join(l.strip() for l in lines)[:700], runs=runs)
