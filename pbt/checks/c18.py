"""C18 Errors are reported faithfully: class, message, call chain and exit status."""
import re

from hypothesis import strategies as st

from ..lang import gen, printer
from ..oracle import compare_model
from ..runner import Failure, Outcome
from .common import layout_ints, run_model, short

PROPERTY = "C18"
LEVEL = "exploration"
VARIANTS = ("dbg", "rel")
RULE = ("Hypothesis draws a call chain of depth 1-6 mixing functions, methods, initialisers, static methods, lambdas "
        "bound by let, and callbacks run by natives (each: with a native stub frame; map..list: without), with 0-2 "
        "filler statements drawn between every two statements so that every call and raise sits on a drawn line; the "
        "innermost frame raises Error / a builtin or user subclass (optionally with an inner error), hits a runtime "
        "fault (type, index, undefined property, non-callable), calls exit(n) or does nothing; the chain is entered "
        "inside a module-level try whose catch prints message, inner.message and every backTrace entry, or is left "
        "uncaught; 15% of programs end with 1200 lines of output. The reference evaluator tracks the active calls and "
        "their lines (the printer records the line of every statement). Oracle: stdout (including the printed "
        "backTrace), status (1 for an uncaught error, n for exit(n), 0 otherwise), and for uncaught errors stderr = "
        "'Traceback (most recent call last):', one '  <path>:<line> in <fn>()|script' line per active Laythe frame "
        "innermost first (natives that run with a stub frame of their own -- each, reduce, print, [] ... -- appear as 'native:0 in <name>()'), then '<Class>: <message>'. Non-trivial: chain depth >= 2 "
        "with the raise on a different line from every call; distinct by program text.")
ASSUMPTIONS = ["every statement is printed on one line, so the line of a call is the line of its statement",
               "which natives run with a stub frame is taken from NativeMetaBuilder::with_stack at the pinned commit "
               "(pbt/lang/natives.py STACK_NATIVES)",
               "messages of vm raised runtime faults are not compared (only their class)"]
GATES = {"nontrivial": 0.50, "uncaught": 0.12, "caught": 0.20}
LEVEL_TEXT = "Model-based search over generated call-chain shapes and line layouts; bounded by the generated shapes."
LEVEL_NOTE = "Trusted base: reference evaluator's frame/line tracking, printer line recording, worker harness."
TECHNIQUE = "property-based testing (Hypothesis): model-based oracle over generated call chains and line layouts"

TB_LINE = re.compile(r"^  (\S+):(\d+) in (.+)$")


def cases(tier):
    return 2400 if tier == "quick" else 240000


def strategy(hazards):
    return gen.trace_program()


def expected_traceback(res, path="/v/main.lay"):
    out = []
    for (name, line, native) in res.err_chain:
        if native:
            out.append(("native", 0, name + "()"))
            continue
        out.append((path, line, "script" if name == "script" else name + "()"))
    return out


# A shape outside the generator: the error is raised by the catch clause itself (it names something that is not a class)
# after a first error unwound to it from a deeper call. Which calls are "active" then is the catching frame and its
# callers; the frames the first error left behind are not.
SCENARIOS = {
    "bad-catch-clause-after-deeper-raise": (
        "let Fake = 'not a class';\nfn thrower() {\n  raise Error('first');\n}\nfn mid() {\n  try {\n    thrower();\n  } catch e: Fake {\n"
        "    print('unreachable');\n  }\n}\ntry {\n  mid();\n} catch e: TypeError {\n  print(e.message);\n  for line in e.backTrace {\n"
        "    print(line);\n  }\n}\n",
        "Catch block must be blank or a subclass of Error.\n/v/main.lay:8 in mid()\n/v/main.lay:13 in script\n"),
}


def run_scenario(name, ctx):
    from ..runner import enc
    src, want = SCENARIOS[name]
    fail = None
    runs = 0
    for variant in ("dbg", "rel"):
        r = ctx.worker(variant).run(src)
        runs += 1
        if r.get("outcome") != "ok" or r.get("stdout") != want:
            fail = Failure("%s/scenario/%s" % (PROPERTY, name),
                           "%s on %s: expected stdout %r, got %s with stdout %r\n%s\n--- source\n%s" %
                           (name, variant, want, r.get("outcome"), r.get("stdout"), (r.get("stderr") or "")[-300:], src),
                           {"source": src, "case": enc(("scenario", name))})
            break
    return Outcome(key="scenario:" + name, nontrivial=True, labels=["scenario"], failure=fail, runs=runs)


def extra(tier, ctx):
    return [run_scenario(n, ctx) for n in sorted(SCENARIOS)]


def run_case(case, ctx):
    if isinstance(case, tuple) and len(case) == 2 and case[0] == "scenario":
        return run_scenario(case[1], ctx)
    prog = case
    src, lines = printer.to_source(prog)
    res, why = run_model(prog, lines)
    if res is None:
        return Outcome(discarded=why)
    text = repr(prog)
    depth = text.count("'lv")
    labels = ["outcome:" + res.outcome]
    if res.outcome == "error":
        labels.append("uncaught")
    if res.counts.get("caught"):
        labels.append("caught")
    nontrivial = depth >= 2 and (res.outcome == "error" or res.counts.get("caught", 0) > 0)
    if nontrivial:
        labels.append("nontrivial")
    fail = None
    runs = 0
    for variant in ("dbg", "rel"):
        r = ctx.worker(variant).run(src)
        runs += 1
        explicit = "'raise'" in text and res.err_msg is not None and res.err_msg.startswith("msg")
        fail = compare_model(PROPERTY, res, r, src, variant, check_message=explicit)
        if fail is None and res.outcome == "error":
            got = []
            err = (r.get("stderr") or "").split("\n")
            if not err or err[0] != "Traceback (most recent call last):":
                fail = Failure("%s/traceback-header" % PROPERTY, "%s: stderr does not start with the traceback header: %r\n--- source\n%s" %
                               (variant, err[:2], src), {"source": src})
            else:
                for l in err[1:]:
                    m = TB_LINE.match(l)
                    if m:
                        got.append((m.group(1), int(m.group(2)), m.group(3)))
                want = expected_traceback(res)
                if got != want:
                    fail = Failure("%s/traceback-frames" % PROPERTY,
                                   "%s: traceback frames differ\n expected: %s\n      got: %s\n--- source\n%s" %
                                   (variant, want, got, "\n".join("%3d %s" % (i + 1, l) for i, l in enumerate(src.split("\n")))),
                                   {"source": src})
        if fail is not None:
            break
    return Outcome(key=src, nontrivial=nontrivial, labels=labels, failure=fail, sample=short(src, 900), runs=runs)
