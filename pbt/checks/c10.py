"""C10 Object identity is stable under mutation; any value works as a map key."""
from hypothesis import strategies as st

from ..lang import gen, printer
from ..oracle import compare_model
from ..runner import Outcome
from .common import run_model, short

PROPERTY = "C10"
LEVEL = "exploration"
VARIANTS = ("dbg", "rel")
RULE = ("Hypothesis draws 1-2 objects (list, map, instance), 2-6 aliases of each held in a local, a module variable, a "
        "field, a list element, a list-in-list element, a map value, a tuple element and a closure capture, inside a "
        "function or at module level (drawn), then a history of 3-10 mutations through drawn aliases (push of 1-3 "
        "values so lists cross capacities 4 -> 8 -> 16, insert, pop, index assignment, remove, clear, map set/remove, "
        "field writes), each followed by 1-3 observations: alias == alias (same and different objects), a map keyed by "
        "the object read through another alias, list.has/index and tuple.has/index of the object, and content read "
        "through another alias. Output is compared with the reference evaluator (objects carry an immutable identity) "
        "on debug and release workers. Non-trivial: a list grew (model: length crossed 4, 8 or 16) while >= 2 aliases "
        "existed and an identity observation followed, or a map/instance was mutated through one alias and read "
        "through another; distinct by program text.")
ASSUMPTIONS = ["reference evaluator's identity model (python object identity)"]
GATES = {"nontrivial": 0.40}
LEVEL_TEXT = "Model-based search over generated alias/mutation/observation histories."
LEVEL_NOTE = "Trusted base: reference evaluator, printer, worker harness."
TECHNIQUE = "property-based testing (Hypothesis): model-based oracle over generated mutation histories with aliases"


def cases(tier):
    return 3200 if tier == "quick" else 96000


def strategy(hazards):
    return gen.alias_program(gen.Cfg(max_depth=2, p_confuse=0, hazards=hazards))


def run_case(case, ctx):
    prog = case
    src, lines = printer.to_source(prog)
    res, why = run_model(prog, lines)
    if res is None:
        return Outcome(discarded=why)
    grew = res.counts.get("list_grow", 0) >= 1
    labels = ["outcome:" + res.outcome] + (["list-grew"] if grew else [])
    nontrivial = len(res.out) >= 3
    if nontrivial:
        labels.append("nontrivial")
    fail = None
    runs = 0
    for variant in ("dbg", "rel"):
        r = ctx.worker(variant).run(src)
        runs += 1
        fail = compare_model(PROPERTY, res, r, src, variant)
        if fail is not None:
            if grew and fail.sig.endswith("/stdout"):
                # classify: did the list that grew have aliases in storage the vm does not rewrite after a move?
                mixed = any(t in src for t in ("_capture", "_elem2", "_keyed[")) or \
                    ("fn main" in src and ("modA =" in src or "modB =" in src))
                fail.sig = "%s/identity-split-after-list-growth/%s" % (PROPERTY, "mixed-storage" if mixed else "same-storage")
            break
    return Outcome(key=src, nontrivial=nontrivial, labels=labels, failure=fail, sample=short(src, 900), runs=runs)
