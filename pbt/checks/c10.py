"""C10 Object identity is stable under mutation; any value works as a map key."""
from hypothesis import strategies as st

from ..lang import gen, printer
from ..oracle import compare_model
from ..runner import Outcome
from .common import run_model, short

PROPERTY = "C10"
LEVEL = "exploration"
VARIANTS = ("dbg", "rel")
RULE = ("Hypothesis draws 1-2 objects (list, map, instance) inside a function or at module level (drawn), 1-3 aliases of "
        "each at the start and further aliases at drawn later points (also directly after a mutation), held in a "
        "local, a module variable, a field, a list element, a list-in-list element, a map value, a tuple element, a "
        "closure capture, or as the key of a map; then a history of 4-12 mutations through drawn aliases: push of 1-4 "
        "values, insert, pop, index assignment, remove, clear, map set/remove, field writes, and pushes / inserts done "
        "inside helper functions whose returned alias is compared or kept (the list grows in a callee frame while "
        "aliases live in the caller's). The generator keeps an exact account of every list's length and capacity "
        "(literal of n: max(n, 4); growth: max(2 cap, needed)) and steers a third of the list mutations to the "
        "capacity boundary. Each step is followed by 0-3 observations: alias == alias directly and through a helper "
        "(same and different objects), lookups in maps keyed by the object, list.has/index and tuple.has/index of the "
        "object, and reads through the list's own natives ([0], has, index, slice, len, str). Output is compared with "
        "the reference evaluator (objects carry an immutable identity) on debug and release workers. Known finding "
        "hazard: an alias kept where the vm does not rewrite pointers after a move (capture -- decided up front because "
        "a captured local is boxed from its declaration --, module variable, two levels deep, map key) may be created "
        "at any time, but from then on that list is only mutated within its capacity. Shrinking only cuts the history "
        "short and deletes observations, so the account stays valid. Non-trivial: >= 3 observations and (a list grew or "
        "a map / instance was mutated); distinct by program text.")
ASSUMPTIONS = ["reference evaluator's identity model (python object identity)"]
GATES = {"nontrivial": 0.40, "list-grew": 0.25}
LEVEL_TEXT = "Model-based search over generated alias/mutation/observation histories."
LEVEL_NOTE = "Trusted base: reference evaluator, printer, worker harness."
TECHNIQUE = "property-based testing (Hypothesis): model-based oracle over generated mutation histories with aliases"


def cases(tier):
    return 3200 if tier == "quick" else 160000


def strategy(hazards):
    return gen.alias_scenario(gen.Cfg(max_depth=2, p_confuse=0, hazards=hazards))


def run_case(case, ctx):
    if isinstance(case, tuple) and len(case) == 2 and isinstance(case[1], dict):
        prog, meta = case
    else:
        prog, meta = case, None  # replays saved before the generator reported its own account
    src, lines = printer.to_source(prog)
    res, why = run_model(prog, lines)
    if res is None:
        return Outcome(discarded=why)
    grew = res.counts.get("list_grow", 0) >= 1
    labels = ["outcome:" + res.outcome] + (["list-grew"] if grew else [])
    nontrivial = len(res.out) >= 3 and (grew or "let o0 = [" not in src or "let o1 = {" in src or "let o1 = Box" in src)
    if nontrivial:
        labels.append("nontrivial")
    fail = None
    runs = 0
    from .. import worker as W
    for variant in ("dbg", "rel"):
        # (one case in eight also under collect-at-every-allocation: the buffers lists move to are heap objects too)
        sched = W.EVERY_ALLOC if (variant == "dbg" and len(src) % 8 == 0) else W.NATURAL
        r = ctx.worker(variant).run(src, schedule=sched)
        runs += 1
        fail = compare_model(PROPERTY, res, r, src, variant)
        if fail is not None:
            if grew and fail.sig.endswith("/stdout"):
                # classify: did the list that grew have aliases in storage the vm does not rewrite after a move?
                if meta is not None:
                    mixed = bool(meta.get("unsafe_growth"))
                else:
                    mixed = any(t in src for t in ("_capture", "_elem2", "_keyed")) or \
                        ("fn main" in src and ("modA =" in src or "modB =" in src))
                fail.sig = "%s/identity-split-after-list-growth/%s" % (PROPERTY, "mixed-storage" if mixed else "same-storage")
            break
    return Outcome(key=src, nontrivial=nontrivial, labels=labels, failure=fail, sample=short(src, 900), runs=runs)


def _body(prog):
    """-> (path to the statement list holding the history, that list)"""
    for i, st_ in enumerate(prog):
        if st_[0] == "fn" and st_[1] == "main":
            return i, st_[3]
    return None, prog


def _with_body(prog, i, body):
    if i is None:
        return body
    f = prog[i]
    return prog[:i] + [("fn", f[1], f[2], body)] + prog[i + 1:]


def _is_observation(st_):
    return st_[0] == "print" or (st_[0] == "try" and st_[1] and st_[1][0][0] == "print")


def shrink(case, still_fails):
    """Only reductions that keep the generator's account of lengths, capacities and alias storage valid: cut the
    history short, then delete observations (prints change nothing)."""
    if not (isinstance(case, tuple) and len(case) == 2 and isinstance(case[1], dict)):
        return case
    prog, meta = case
    i, body = _body(prog)
    fixed = 0 if i is not None else next((k for k, st_ in enumerate(body) if st_[0] == "let" and st_[1].startswith("o")), 0)
    lo, hi = fixed, len(body)
    # shortest failing prefix (failures are monotone in the prefix: the first wrong line stays wrong)
    while hi - lo > 1:
        mid = (lo + hi) // 2
        if still_fails((_with_body(prog, i, body[:mid]), meta)):
            hi = mid
        else:
            lo = mid
    if hi < len(body) and still_fails((_with_body(prog, i, body[:hi]), meta)):
        body = body[:hi]
    k = len(body) - 2
    while k >= 0:
        if _is_observation(body[k]):
            cand = body[:k] + body[k + 1:]
            if still_fails((_with_body(prog, i, cand), meta)):
                body = cand
        k -= 1
    return (_with_body(prog, i, body), meta)
