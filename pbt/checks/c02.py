"""C02 Lexical scoping: closures share captured variables by reference."""
from hypothesis import strategies as st

from .. import worker as W
from ..lang import gen, printer, shadow
from ..oracle import compare_model
from ..runner import Outcome
from .common import run_model, short

PROPERTY = "C02"
LEVEL = "exploration"
VARIANTS = ("dbg", "rel")
RULE = ("Hypothesis draws a closure scenario: 'maker' functions (nesting <= 3) declare parameters, lets, loop items, "
        "catch variables and inner functions, create lambdas/named functions over drawn subsets of the visible "
        "variables (directly, once per loop iteration, inside catch blocks, through nested makers so captures of "
        "captures arise), and return them in a list; the caller invokes several makers several times and interleaves "
        "calls of the returned closures with writes through the declaring scope and prints. Output is compared with "
        "the reference evaluator (environment model with shared mutable cells) on the debug and release workers; "
        "every 8th case also under collect-at-every-allocation. Non-trivial: the model saw a closure invoked after "
        "its declaring activation returned, or a variable read in an activation other than the one that last wrote "
        "it; distinct by program text. "
        "In one program in four up to two user declarations (variables, parameters, classes) are renamed to builtin class names the program text does not mention (Object, Error, List, ...: pbt/lang/shadow.py globalize): what the language does implicitly (the superclass of a class that names none, the class of a blank catch, literals) must not go through the user's scope.")
ASSUMPTIONS = ["reference evaluator: each execution of let/fn/param/catch creates a fresh cell, the for item is one "
               "cell per loop, closures capture cells (pbt/lang/model.py)",
               "model step budget overruns are discarded (counted)"]
GATES = {"called_after_return": 0.40, "cross_scope_read": 0.40, "capture_of_capture": 0.03, "cap:for": 0.03,
         "cap:param": 0.10}
LEVEL_TEXT = ("Generated-program search against an independent reference evaluator whose environments are chains of "
              "shared cells. Finds capture/aliasing violations in the generated scenarios (labels record which capture "
              "kinds occurred); no claim beyond the generator's shapes and nesting bound.")
LEVEL_NOTE = ("Trusted base: reference evaluator, printer, worker harness, Hypothesis. self/field captures are "
              "exercised by the C03 profile.")
TECHNIQUE = "property-based testing (Hypothesis): model-based oracle over generated closure scenarios"


def cases(tier):
    return 2400 if tier == "quick" else 120000


def strategy(hazards):
    cfg = gen.Cfg(max_depth=3, p_confuse=0, exceptions=True, hazards=hazards)
    # the third component drives the shadowing pass (pbt/lang/shadow.py): pairs of integers, each pair renames one
    # declaration to the name of a variable of an enclosing scope; programs of the core grammar join the closure
    # scenarios there because their nested blocks / loops / functions give shadowing more places to happen
    progs_ = st.one_of(gen.closure_program(cfg), gen.closure_program(cfg), gen.program(gen.Cfg(p_confuse=0, hazards=hazards)))
    # fourth component: renames of user declarations to builtin class names the program does not mention
    # (shadow.globalize; empty three times out of four)
    return st.tuples(progs_, st.integers(0, 7), st.lists(st.integers(0, 1000), min_size=0, max_size=6),
                     st.one_of(st.just([]), st.just([]), st.just([]), st.lists(st.integers(0, 1000), min_size=2, max_size=4)))


def run_case(case, ctx):
    prog, sel = case[0], case[1]
    picks = case[2] if len(case) > 2 else []
    renames = 0
    if picks:
        prog, renames = shadow.shadowize(prog, picks)
    if len(case) > 3 and case[3]:
        prog, globalized = shadow.globalize(prog, case[3], printer.to_source(prog)[0])
        renames += len(globalized)
    src, lines = printer.to_source(prog)
    res, why = run_model(prog, lines)
    if res is None:
        return Outcome(discarded=why)
    labels = sorted(l for l in res.labels) + ["outcome:" + res.outcome] + (["shadowed"] if renames else [])
    nontrivial = "called_after_return" in res.labels or "cross_scope_read" in res.labels
    runs = 0
    fail = None
    for variant in ("dbg", "rel"):
        r = ctx.worker(variant).run(src)
        runs += 1
        fail = compare_model(PROPERTY, res, r, src, variant)
        if fail is not None:
            break
    if fail is None and sel == 0:
        r = ctx.worker("dbg").run(src, schedule=W.EVERY_ALLOC)
        runs += 1
        labels.append("gc:every_alloc")
        fail = compare_model(PROPERTY, res, r, src, "dbg under collect-at-every-allocation")
    return Outcome(key=src, nontrivial=nontrivial, labels=labels, failure=fail, sample=short(src, 900), runs=runs)
