"""C13 Inline caches are transparent."""
from hypothesis import strategies as st

from .. import worker as W
from ..lang import gen, printer
from ..oracle import compare_model, same_behaviour
from ..runner import Outcome
from .common import run_model, short

PROPERTY = "C13"
LEVEL = "exploration"
VARIANTS = ("dbg", "rel")
RULE = ("Hypothesis draws a class scenario with call-site stress: shared helper functions each containing one property "
        "get / set / invoke / get-then-call site are driven by a drawn history of receivers (instances of 1-5 related "
        "classes, classes with equal field names in different orders, instances whose field shadows the method, "
        "class objects) and, in 70% of cases, by classes created at run time inside a factory function (three layouts, "
        "fresh class objects per call), dropped, with garbage generated in between so collections can recycle their "
        "addresses. Each program runs with the caches forced to miss (hook) and normally, under a drawn collection "
        "schedule {natural, every 3rd allocation, seeded, every allocation} with the allocator quarantine off (freed "
        "addresses are reused immediately); outcome and output must agree with each other and with the reference "
        "evaluator. Non-trivial: the model saw >= 1 site reached by >= 2 distinct receiver classes; distinct by "
        "program text + schedule.")
ASSUMPTIONS = ["the cache-off switch (InlineCache::get_*_cache returning None) exercises the slow path everywhere",
               "reference evaluator as third voice"]
GATES = {"polymorphic_site": 0.40, "site_same_name_distinct_class": 0.10}
LEVEL_TEXT = ("Differential search (caches on vs forced slow path) plus model comparison over generated receiver "
              "histories, with address reuse enabled. Bounded by the generated shapes.")
LEVEL_NOTE = "Trusted base: cache switch hook, gc schedule hook, reference evaluator, worker harness."
TECHNIQUE = "property-based testing (Hypothesis): differential (caches off/on) + model oracle over receiver histories"


def cases(tier):
    return 2000 if tier == "quick" else 60000


def strategy(hazards):
    sched = st.one_of(st.just(("natural",)), st.just(("every_kth", 3)), st.just(("every_alloc",)),
                      st.tuples(st.integers(0, 1 << 20), st.integers(20, 300)).map(lambda t: ("seeded", t[0], t[1])))
    progs_ = st.one_of(gen.cache_program(gen.Cfg(max_depth=3, p_confuse=0, hazards=hazards)),
                       gen.cache_program(gen.Cfg(max_depth=3, p_confuse=0, hazards=hazards)),
                       gen.cross_module_cache_scenario())
    return st.tuples(progs_, sched, st.integers(0, 1))


def run_case(case, ctx):
    if case and case[0] == "slots":
        name, text, want = next(t for t in slot_boundary_texts() if t[0] == case[1])
        r = ctx.worker("rel").run(text, watchdog_s=300)
        from ..runner import Failure
        fail = None
        if r.get("outcome") != "timeout" and (r.get("outcome") != "ok" or r.get("stdout") != want):
            fail = Failure("%s/slot-boundary/%s" % (PROPERTY, name.rsplit("-", 1)[0]), "%s: expected %r, got %s %r" %
                           (name, want, r.get("outcome"), (r.get("stdout") or "")[:200]), {})
        return Outcome(key="slots:" + name, nontrivial=True, labels=["slot-boundary"], failure=fail, runs=1)
    prog, sched, vsel = case
    files = None
    texts = None
    if isinstance(prog, dict):
        # two modules: every inline cache slot number exists in both, with a different meaning
        files = prog["files"]
        texts = {p_: printer.to_source(s_)[0] for p_, s_ in files.items()}
        prog = prog["main"]
    src, lines = printer.to_source(prog)
    res, why = run_model(prog, lines, files=files)
    if res is None:
        return Outcome(discarded=why)
    variant = VARIANTS[vsel % 2]
    w = ctx.worker(variant)
    sched = tuple(sched)
    on = w.run(src, files=texts, schedule=sched, alloc_mode=1)
    off = w.run(src, files=texts, schedule=sched, alloc_mode=1, caches_disabled=True)
    if texts:
        src = src + "".join("\n--- %s\n%s" % (p_, t) for p_, t in sorted(texts.items()))
    labels = sorted(l for l in res.labels if "site" in l or l in ("inherit", "shadow_call")) + \
        ["sched:" + sched[0], "build:" + variant] + (["two-modules"] if texts else [])
    nontrivial = "polymorphic_site" in res.labels
    fail = same_behaviour(PROPERTY, off, on, src, "caches forced to miss", "caches enabled", "cache")
    if fail is None:
        fail = compare_model(PROPERTY, res, on, src, "caches enabled on " + variant)
    return Outcome(key=src + repr(sched), nontrivial=nontrivial, labels=labels, failure=fail, sample=short(src, 900), runs=2)


# ------------------------------------------------------------------------------------------- slot number boundaries
def slot_boundary_texts():
    """Inline cache slots are numbered per module with 32 bit operands: sites whose numbers differ by 65536 must not
    share an entry. Eight sites, then a never executed function holding n filler sites, then eight more sites: for n
    near 65536 several of the later sites have numbers congruent to earlier ones. -> [(name, text, expected stdout)]"""
    out = []
    ms = "".join("a%d() { return \"a%d\"; } b%d() { return \"b%d\"; } " % (k, k, k, k) for k in range(8))
    fs = "".join("self.p%d = \"p%d\"; self.q%d = \"q%d\"; " % (k, k, k, k) for k in range(8))
    cls = "class A { init() { %s} %s}\n" % (fs, ms)
    calls = "let a = A();\n" + "".join("print(first%d(a)); print(second%d(a)); print(first%d(a));\n" % (k, k, k) for k in range(8))
    for n in (65530, 65536, 65540):
        firsts = "".join("fn first%d(a) { return a.a%d(); }\n" % (k, k) for k in range(8))
        seconds = "".join("fn second%d(a) { return a.b%d(); }\n" % (k, k) for k in range(8))
        filler = "fn filler(a) {\n" + "a.a0();\n" * n + "}\n"
        want = "".join("a%d\nb%d\na%d\n" % (k, k, k) for k in range(8))
        out.append(("invoke-slots-%d" % n, cls + firsts + filler + seconds + calls, want))
        firsts = "".join("fn first%d(a) { return a.p%d; }\n" % (k, k) for k in range(8))
        seconds = "".join("fn second%d(a) { return a.q%d; }\n" % (k, k) for k in range(8))
        filler = "fn filler(a) {\n" + "a.p0;\n" * n + "}\n"
        want = "".join("p%d\nq%d\np%d\n" % (k, k, k) for k in range(8))
        out.append(("property-slots-%d" % n, cls + firsts + filler + seconds + calls, want))
    return out


def extra(tier, ctx):
    from ..runner import Failure, enc
    out = []
    texts = slot_boundary_texts()
    if tier == "quick":
        texts = [t for t in texts if t[0].endswith("65530")]
    for name, text, want in texts:
        fail = None
        runs = 0
        for variant in (("dbg", "rel") if tier == "thorough" else ("rel",)):
            r = ctx.worker(variant).run(text, watchdog_s=300)
            runs += 1
            if r.get("outcome") == "timeout":
                break
            if r.get("outcome") != "ok" or r.get("stdout") != want:
                fail = Failure("%s/slot-boundary/%s" % (PROPERTY, name.rsplit("-", 1)[0]),
                               "%s on %s: expected %r, got outcome %s stdout %r stderr %r" %
                               (name, variant, want, r.get("outcome"), (r.get("stdout") or "")[:200], (r.get("stderr") or "")[-300:]),
                               {"case": enc(("slots", name))})
                break
        out.append(Outcome(key="slots:" + name, nontrivial=True, labels=["slot-boundary"], failure=fail, runs=runs))
    return out
