"""C17 Modules run once and expose exactly their exports."""
from ..lang import gen, model, printer
from ..oracle import compare_model
from ..runner import Outcome
from .common import short

PROPERTY = "C17"
LEVEL = "exploration"
VARIANTS = ("dbg", "rel")
RULE = ("Hypothesis draws an acyclic module graph of 1-4 files plus main in an in-memory file system: each module prints "
        "'run <name>' first, keeps a private counter, declares exported and private let / fn (closures over the private "
        "counter) / class, and imports earlier modules in a drawn form (whole, 'as' alias, selected symbols with and "
        "without rename), multiplicity and position; main imports drawn modules several times in drawn forms, uses "
        "every imported symbol and prints; one case in three ends with a negative import (a non-exported name by symbol "
        "import or through the module object, a misspelt name, a missing module). Output, error class and exit status "
        "are compared with the reference evaluator (module registry: body runs once, before the importer continues; the "
        "import object exposes exactly the export set) on debug and release workers, every 8th case under "
        "collect-at-every-allocation. Non-trivial: a module is imported by >= 2 importers or >= 2 times, or through a "
        "chain of >= 2, and >= 1 imported symbol is used; distinct by the text of all files.")
ASSUMPTIONS = ["exported lets are not reassigned after export (the import object is a snapshot: live-update semantics are "
               "unspecified)", "flat package layout (self.<module>)"]
GATES = {"nontrivial": 0.40, "negative-import": 0.10}
LEVEL_TEXT = "Model-based search over generated module graphs; bounded by graph size and the import forms generated."
LEVEL_NOTE = "Trusted base: reference evaluator's module registry, in-memory file system of the worker, printer."
TECHNIQUE = "property-based testing (Hypothesis): model-based oracle over generated module graphs"


def cases(tier):
    return 2400 if tier == "quick" else 160000


def strategy(hazards):
    from hypothesis import strategies as st
    return st.tuples(gen.modules_program(), st.integers(0, 7))


def run_case(case, ctx):
    from .. import worker as W
    scen, sel = case
    files_ast = scen["files"]
    main = scen["main"]
    texts = {}
    try:
        for path, stmts in files_ast.items():
            texts[path] = printer.to_source(stmts)[0]
        src = printer.to_source(main)[0]
    except ValueError:
        return Outcome(discarded="unprintable")
    it = model.Interp(files=files_ast)
    it.fibers = True  # silent background fibers only (see Interp.fibers)
    try:
        res = it.run(main)
    except (model.StepBudget, model.Unsupported) as e:
        return Outcome(discarded="model:" + str(e)[:40])
    # labels from the graph
    importers = {}
    def count(stmts, who):
        for s in stmts:
            if s[0] == "import":
                importers.setdefault(s[1][-1], []).append(who)
    count(main, "main")
    for path, stmts in files_ast.items():
        count(stmts, path)
    multi = any(len(v) >= 2 for v in importers.values())
    chain = any(w != "main" for v in importers.values() for w in v)
    nontrivial = (multi or chain) and len(res.out) >= 3
    labels = ["outcome:" + res.outcome]
    if multi:
        labels.append("multi-import")
    if chain:
        labels.append("chain")
    if res.outcome == "error":
        labels.append("negative-import")
    if nontrivial:
        labels.append("nontrivial")
    fail = None
    runs = 0
    everything = src + "".join("\n--- %s\n%s" % (p, t) for p, t in sorted(texts.items()))
    for variant in ("dbg", "rel"):
        sched = W.EVERY_ALLOC if (sel == 0 and variant == "dbg") else W.NATURAL
        r = ctx.worker(variant).run(src, files=texts, schedule=sched)
        runs += 1
        fail = compare_model(PROPERTY, res, r, everything, variant)
        if fail is not None:
            break
    return Outcome(key=everything, nontrivial=nontrivial, labels=labels, failure=fail, sample=short(everything, 900), runs=runs)
