"""C07 Channels deliver every value exactly once, in order, within capacity."""
from hypothesis import strategies as st

from .. import kpn, kpn_bulk, kpn_many, kpn_native
from .. import worker as W
from ..lang import printer
from ..oracle import crash_failure
from ..runner import Outcome
from . import kpncommon as K

PROPERTY = "C07"
LEVEL = "exploration"
VARIANTS = ("dbg", "rel")
RULE = ("Hypothesis draws a process network as a history of operations: 1-5 launched fibers plus main, 1-4 channels "
        "each synchronous or of capacity 1/2/3/5 with exactly one sending and one receiving fiber, 0-4 unique values "
        "per channel (sender*1000+seq), drawn interleaving of each fiber's sends/receives/work, optional close by the "
        "writer followed by a try-send and by receives of the drained channel, fibers launched by main or by other "
        "fibers at drawn points, channels passed as launch arguments or captured; ~1/3 of networks deliberately "
        "unbalanced. Every completed operation is printed, tagged with its fiber and a shared logical clock. Oracle: a "
        "Kahn-style model computes each fiber's determinate history; the vm's per-fiber sequence must be a prefix of it "
        "(equality at completion is C08's business), len() never exceeds capacity(), and for synchronous channels the "
        "receive of v has a smaller clock than the return of the send of v; after close buffered values are still "
        "delivered, then nil; sends to a closed channel raise. Debug and release workers, every 8th case under "
        "collect-at-every-allocation. Non-trivial: >= 2 fibers exchanged >= 3 values and the model saw >= 1 blocked "
        "operation; distinct by program text. Mode M (one case in four): 1-3 senders and 1-3 receivers share ONE channel "
        "(sync or capacity 1/2/3/5), 1-4 values per sender, launch order drawn, launches optionally from a starter "
        "fiber, channel captured or passed as argument, values plain or boxed in fresh lists; the sender that finishes "
        "last (or main) closes the channel and the receivers drain it until nil. The network is not determinate, so "
        "the oracle is a validity predicate over the receivers' logs: every logged value was sent, none twice, one "
        "sender's values in sending order within a log, len() <= capacity(), and at completion the union of the logs "
        "is exactly the set sent. In one Mode M network in three a receiver closes the channel early (after its q-th "
        "value, optionally after and before a round trip with a helper fiber so that it parks elsewhere while a value "
        "sits in the closed channel, optionally not receiving any more): senders wrap each send, print 'trying' / "
        "'sent' / 'refused' with a shared logical clock and stop at the first refusal; then exactly the values whose "
        "send returned normally must arrive, a refused value must not, a send that began after the close must be "
        "refused, and on a synchronous channel every 'sent' comes after the matching 'got'. Non-trivial there: >= 3 "
        "fibers and >= 3 values. Mode B (one case in nine): ONE buffered channel with a drawn capacity (1-8, a "
        "power-of-two neighbour up to 4096, or anything up to 5000) carrying up to 5000 values written with loops: one "
        "fiber fills it within capacity, closes and drains it; or main produces for a launched consumer; or a launched "
        "producer feeds main. With one fiber the expected output is exact; with two: capacity() is the capacity asked "
        "for, the consumer's first value arrives when main has sent at most min(n, capacity) values, len() never exceeds "
        "the capacity, all n values arrive in order and then nil. Mode N (one case in ten): one end of a channel sits in a callback run by a native "
        "(Iter.map under List.collect or list(), each, reduce, filter), 0-3 calls below main, the other end is a launched "
        "fiber (0-3 calls deep, optionally launched by a starter fiber) that calls helper functions 0-4 calls deep and "
        "may raise and catch an error before each channel operation; 1-4 values, synchronous or buffered. Expected "
        "output is exact (the values in order, the fiber's own report, the number of errors caught).")
ASSUMPTIONS = ["single-writer single-reader networks are determinate, so the model does not need the schedule",
               "the fiber scheduler is deterministic and not steered: scheduler states are reached by varying the "
               "program (launch order, capacities, operation order)"]
GATES = {"nontrivial": 0.20, "has-sync": 0.28, "has-close": 0.10, "mode:B": 0.03}
LEVEL_TEXT = ("Model-based search over generated operation histories with a determinacy argument replacing schedule "
              "control; finds lost/duplicated/reordered/invented values and capacity or rendezvous violations in the "
              "networks generated.")
LEVEL_NOTE = "Trusted base: pbt/kpn.py (model, program builder, output parser), worker harness."
TECHNIQUE = "property-based testing (Hypothesis): model-based oracle over generated fiber/channel operation histories"


def cases(tier):
    return 2400 if tier == "quick" else 240000


def strategy(hazards):
    # (one_of does not choose uniformly in the generate phase: the last branch came out in a quarter of the cases; the
    # bulk mode gets one middle value of an explicit selector)
    pool = [kpn.network(False, hazards), kpn.network(False, hazards), kpn.network(True, hazards), kpn_many.many_network(hazards)]
    return st.tuples(st.integers(0, 9).flatmap(lambda k: kpn_bulk.bulk_network() if k == 5 else (kpn_native.native_network(hazards) if k == 2 else pool[k % 4])), st.integers(0, 7))


def labels_of(net, m):
    labels = []
    if any(c == 0 for c in net["caps"]):
        labels.append("has-sync")
    if any(op[0] == "close" for s in net["scripts"] for op in s):
        labels.append("has-close")
    if any(op[0] == "launch" for s in net["scripts"][1:] for op in s):
        labels.append("nested-launch")
    labels.append("model:" + m.outcome)
    return labels


def run_many(prop, case, ctx, judge):
    """Mode M network: run on both builds, judge with the validity predicate `judge`."""
    net, sel = case
    src = printer.to_source(kpn_many.build_program(net))[0]
    fail = None
    runs = 0
    for variant in ("dbg", "rel"):
        r = ctx.worker(variant).run(src, schedule=W.EVERY_ALLOC if (sel == 0 and variant == "dbg") else W.NATURAL,
                                    budget=kpn_many.budget(net))
        runs += 1
        if r.get("outcome") != "budget":
            fail = crash_failure(prop, r, src, variant)
        if fail is None:
            fail = judge(prop, net, r, src)
        if fail is not None:
            break
    nontrivial = net["ns"] + net["nr"] >= 3 and sum(net["counts"]) >= 3
    labels = ["mode:M", "model:complete", "closer:" + net["closer"]] + (["has-sync"] if net["cap"] == 0 else []) + \
        ["has-close"] + (["boxed"] if net.get("boxed") else []) + (["nontrivial"] if nontrivial else [])
    return Outcome(key=src, nontrivial=nontrivial, labels=labels, failure=fail,
                   sample={k: net[k] for k in ("ns", "nr", "cap", "counts", "order", "closer")}, runs=runs)


def run_bulk(prop, case, ctx, progress_only):
    """Mode B network (one channel, large capacity / traffic): exact expected output, both builds."""
    net, sel = case
    src = kpn_bulk.build_source(net)
    fail = None
    runs = 0
    for variant in ("dbg", "rel"):
        r = ctx.worker(variant).run(src, schedule=W.EVERY_ALLOC if (sel == 0 and variant == "dbg" and net["n"] <= 300) else W.NATURAL,
                                    budget=kpn_bulk.budget(net))
        runs += 1
        if r.get("outcome") != "budget":
            fail = crash_failure(prop, r, src, variant)
        if fail is None:
            fail = kpn_bulk.failure(prop, net, r, src, progress_only)
        if fail is not None:
            break
    nontrivial = net["n"] >= 3
    labels = ["mode:B", "model:complete", "has-close", "shape:%d" % net["shape"]] + (["over-capacity"] if net["n"] > net["cap"] else []) + \
        (["above-1024"] if min(net["n"], net["cap"]) > 1024 else []) + (["nontrivial"] if nontrivial else [])
    return Outcome(key=src, nontrivial=nontrivial, labels=labels, failure=fail,
                   sample={k: net[k] for k in ("cap", "n", "shape", "boxed")}, runs=runs)


def run_native(prop, case, ctx, progress_only):
    """Mode N network (one channel end inside a native's callback): exact expected output, both builds."""
    net, sel = case
    src = kpn_native.build_source(net)
    fail = None
    runs = 0
    for variant in ("dbg", "rel"):
        r = ctx.worker(variant).run(src, schedule=W.EVERY_ALLOC if (sel == 0 and variant == "dbg") else W.NATURAL, budget=2_000_000)
        runs += 1
        if r.get("outcome") != "budget":
            fail = crash_failure(prop, r, src, variant)
        if fail is None:
            fail = kpn_native.failure(prop, net, r, src, progress_only)
        if fail is not None:
            break
    nontrivial = net["n"] >= 2
    labels = ["mode:N", "model:complete", "role:" + net["role"], "native:" + net["native"]] + (["has-sync"] if net["cap"] == 0 else []) + \
        (["fiber-catches"] if any(net["catch"]) else []) + (["both-ends-in-callbacks"] if net.get("fiber_native") else []) + \
        (["nontrivial"] if nontrivial else [])
    return Outcome(key=src, nontrivial=nontrivial, labels=labels, failure=fail,
                   sample={k: net[k] for k in ("cap", "n", "role", "native", "cdepth", "pdepth", "hdepth")}, runs=runs)


def run_case(case, ctx):
    net, sel = case
    if net.get("mode") == "N":
        return run_native(PROPERTY, case, ctx, False)
    if net.get("mode") == "M":
        return run_many(PROPERTY, case, ctx, kpn_many.safety_failure)
    if net.get("mode") == "B":
        return run_bulk(PROPERTY, case, ctx, False)
    fail = None
    runs = 0
    ev = None
    for variant in ("dbg", "rel"):
        ev = K.evaluate(net, ctx, variant, W.EVERY_ALLOC if (sel == 0 and variant == "dbg") else W.NATURAL)
        runs += 1
        fail = crash_failure(PROPERTY, ev["r"], ev["src"], variant) if ev["r"].get("outcome") != "budget" else None
        if fail is None:
            fail = K.safety_failure(PROPERTY, ev)
        if fail is not None:
            break
    m = ev["model"]
    nontrivial = len(net["scripts"]) >= 2 and m.exchanged >= 3 and m.blocked_ops >= 1
    labels = labels_of(net, m) + (["nontrivial"] if nontrivial else []) + (["boxed"] if net.get("boxed") else [])
    return Outcome(key=ev["src"], nontrivial=nontrivial, labels=labels, failure=fail,
                   sample={"caps": net["caps"], "scripts": [[list(o) for o in s] for s in net["scripts"]]}, runs=runs)


def shrink(case, still_fails):
    """Mode M networks are not shrunk structurally (a network without senders, or whose closer is gone, deadlocks for
    reasons of its own); everything else goes through the generic shrinker."""
    from .. import shrink as _shrink
    if isinstance(case, tuple) and case and isinstance(case[0], dict) and case[0].get("mode") == "M":
        net, sel = case
        best = net
        for key in ("work",):
            cand = dict(best)
            cand[key] = [0] * len(best[key])
            if still_fails((cand, sel)):
                best = cand
        for i in range(len(best["counts"])):
            while best["counts"][i] > 1:
                cand = dict(best)
                cand["counts"] = list(best["counts"])
                cand["counts"][i] -= 1
                if still_fails((cand, sel)):
                    best = cand
                else:
                    break
        return (best, sel)
    return _shrink.shrink(case, still_fails, 1500)
