"""C12 The peephole optimiser never changes what a function does.

Three case sources, one oracle (pbt/peephole_model.py):
  (a) bounded-exhaustive windows over the alphabet the rules mention (sharded over processes here,
      results handed to the runner through `extra`);
  (b) Hypothesis sequences of length 5-40 with wider operand ranges (`strategy` / `run_case`);
  (c) run-length boundary sequences (`extra`).
A case is a list of instructions (name, a, b); ("*", n, name, a, b) stands for n copies.
"""
import itertools
import multiprocessing
import os
import re
import time

from hypothesis import strategies as st

from .. import peephole_model as pm
from .. import worker as _worker
from ..oracle import norm_msg
from ..runner import Failure, Known, Outcome, enc

PROPERTY = "C12"
LEVEL = "exploration"
VARIANTS = ("dbg", "rel")
TECHNIQUE = ("bounded-exhaustive enumeration + property-based testing (Hypothesis) of the real peephole_optimize "
             "against an abstract stack machine (symbolic execution oracle)")
RULE = ("(a) every instruction sequence of length <= L (L = 3 quick, 4 thorough) over a 36 symbol alphabet (Drop; "
        "Get/Set of Local, Box, Capture, ModSym with slots 0,1; GetPropByName(0); PropertySlot; GetSuper(0); "
        "Call(0); Call(1); ArgumentDelimiter; Jump, Loop, JumpIfFalse to labels 0,1; Label(0); Label(1); Return; "
        "Raise; Nil; Add; Dup) is enumerated (windows defining one label twice are excluded and counted; thorough "
        "adds every length 5 window over a 17 symbol sub-alphabet); (b) Hypothesis draws sequences of 5-40 "
        "instructions from single instructions (slots 0..3, labels 0..4, Call 0..3) and rule shaped snippets "
        "(property get + slot + arguments + call, super call, store/drop/reload, runs of loads, runs of drops, "
        "transfer + dead code + label); (c) fixed sequences with runs of 1,2,3,254,255,256,257,300,511,512,513 "
        "drops / identical loads in several contexts. Each sequence gets line i+1 on instruction i, is run through "
        "the real peephole_optimize (debug and release worker) and compared with the input by symbolic execution "
        "from the entry and from every label (path conditions, effect log, control outcome, stack, stores), a "
        "label survival check, a cache-slot pairing check and a line provenance check. Non-trivial: at least one "
        "rewrite rule fired (output differs from the input with ArgumentDelimiter deleted); distinct by the text "
        "of the input sequence.")
ASSUMPTIONS = [
    "the abstract machine (pbt/peephole_model.py) encodes the interpreter's per-instruction stack, store and "
    "control behaviour; it was written from laythe_vm/src/vm/ops.rs and shares nothing with the optimiser",
    "Invoke((n,k)) means GetPropByName(n) then Call(k), SuperInvoke((n,k)) means GetSuper(n) then Call(k) (the "
    "meaning the fusing rules intend). The interpreter's op_invoke / op_super_invoke agree with that for k = 0 "
    "only; the compiler emits the adjacent pattern for k = 0 only (every argument is followed by an "
    "ArgumentDelimiter), windows with k > 0 are counted under label fused-with-args",
    "locals, box contents, captures and module symbols are disjoint stores which do not alias the operand "
    "stack; GetModSym/GetBox are assumed not to raise 'undefined variable'",
    "cache slot fillers (PropertySlot/InvokeSlot) have no effect on the state; only their pairing with the "
    "instruction that owns them is checked",
    "the hook laythe_vm::verif::peephole runs the same peephole_optimize the compiler calls",
]
LEVEL_TEXT = ("Exhaustive for all windows up to the stated length over the stated alphabet (every placement of the "
              "two labels included), sampled beyond that. The property quantifies over every sequence the compiler "
              "can emit, which is unbounded, so the claim is exploration: complete inside the bound, evidence "
              "outside of it.")
LEVEL_NOTE = ("Trusted base: the abstract machine and the line/alignment oracle in pbt/peephole_model.py, the verif "
              "hook and Sym mirror in laythe_vm/src/verif.rs, the worker RPC. The equivalence is checked per start "
              "point with labels as cut points; it is structural equality of symbolic terms, so it can only "
              "report a difference that is a real difference under the machine's semantics.")
GATES = {"rule-fired": 0.10, "program": 0.01}

D = ("Drop", 0, 0)
ALPHABET = (
    [D] +
    [(n, s, 0) for n in ("GetLocal", "SetLocal", "GetBox", "SetBox", "GetCapture", "SetCapture", "GetModSym",
                         "SetModSym") for s in (0, 1)] +
    [("GetPropByName", 0, 0), ("PropertySlot", 0, 0), ("GetSuper", 0, 0), ("Call", 0, 0), ("Call", 1, 0),
     ("ArgumentDelimiter", 0, 0)] +
    [(n, l, 0) for n in ("Jump", "Loop", "JumpIfFalse") for l in (0, 1)] +
    [("Label", 0, 0), ("Label", 1, 0), ("Return", 0, 0), ("Raise", 0, 0), ("Nil", 0, 0), ("Add", 0, 0), ("Dup", 0, 0)]
)
# sub-alphabet for the deeper (length 5) enumeration of the thorough tier: every rule's trigger, one slot
SMALL = [D, ("GetLocal", 0, 0), ("SetLocal", 0, 0), ("GetLocal", 1, 0), ("GetModSym", 0, 0), ("SetModSym", 0, 0),
         ("GetPropByName", 0, 0), ("PropertySlot", 0, 0), ("GetSuper", 0, 0), ("Call", 0, 0),
         ("ArgumentDelimiter", 0, 0), ("Jump", 0, 0), ("JumpIfFalse", 0, 0), ("Label", 0, 0), ("Return", 0, 0),
         ("Nil", 0, 0), ("Dup", 0, 0)]
ALPHABETS = {"full": ALPHABET, "small": SMALL}
RULES = ("drop", "invoke", "invoke_super", "eliminate_drop", "load_multiple", "dead_code", "argument_delimiter")
RULE_BIT = {r: 1 << i for i, r in enumerate(RULES)}
NONTRIVIAL_BITS = sum(RULE_BIT[r] for r in RULES if r != "argument_delimiter")
RUNS = (1, 2, 3, 254, 255, 256, 257, 300, 511, 512, 513)


def cases(tier):
    return 8000 if tier == "quick" else 320000


# ------------------------------------------------------------------------------------ optimiser + oracle
def optimise(w, seq):
    return w.call(mode=_worker.MODE_PEEPHOLE, syms=[(n, a, b, i + 1) for i, (n, a, b) in enumerate(seq)])


class Verdict:
    __slots__ = ("klass", "detail", "out", "lines", "apps", "changed")

    def __init__(self, klass=None, detail=None, out=None, lines=None, apps=(), changed=False):
        self.klass = klass
        self.detail = detail
        self.out = out
        self.lines = lines
        self.apps = apps
        self.changed = changed


def judge(seq, resp):
    """Compare the optimiser's response for `seq` (lines i+1) with the oracle."""
    o = resp.get("outcome")
    if o == "panic":
        return Verdict("panic", resp.get("panic") or "")
    if o in ("signal", "timeout"):
        return Verdict("crash", "%s: %s" % (o, resp.get("panic")))
    if o != "ok":
        raise RuntimeError("peephole request rejected: %r" % (resp,))
    if resp["n_syms"] != resp["n_lines"]:
        return Verdict("length", "the optimiser returned %d instructions but %d lines" %
                       (resp["n_syms"], resp["n_lines"]))
    out = [(s[0], s[1], s[2]) for s in resp["syms"]]
    lines = [s[3] for s in resp["syms"]]
    if out == seq and lines == list(range(1, len(seq) + 1)):
        return Verdict(out=out, lines=lines)
    plain = [x for x in seq if x[0] != "ArgumentDelimiter"]
    changed = out != plain
    eq = pm.equivalence(seq, out)
    if eq is not None:
        return Verdict(eq[0], eq[1], out, lines, changed=changed)
    if pm.slots_paired(seq) and not pm.slots_paired(out):
        return Verdict("slots", "every cache slot filler of the input directly follows the instruction that owns it, "
                       "in the output one does not", out, lines, changed=changed)
    apps, err = pm.align(seq, out, lines)
    if err is not None:
        return Verdict("lines", err, out, lines, changed=changed)
    return Verdict(out=out, lines=lines, apps=apps, changed=changed)


def panic_key(msg):
    msg = msg.rpartition(" @ ")[0] or msg
    return re.sub(r"[^a-zA-Z]+", "-", norm_msg(msg)).strip("-").lower()[:60]


def same_failure(v, klass, pkey):
    return v.klass == klass and (klass != "panic" or panic_key(v.detail) == pkey)


def minimise(seq, w, klass, pkey, counter):
    """Delta debugging on the instruction list: smallest sub-sequence with the same class of failure."""

    def bad(s):
        counter[0] += 1
        return same_failure(judge(s, optimise(w, s)), klass, pkey)

    cur = list(seq)
    chunk = max(1, len(cur) // 2)
    while True:
        i = 0
        while i < len(cur):
            cand = cur[:i] + cur[i + chunk:]
            if cand and bad(cand):
                cur = cand
            else:
                i += chunk
        if chunk == 1:
            break
        chunk //= 2
    again = True
    while again and len(cur) <= 64:
        again = False
        for i in range(len(cur)):
            cand = cur[:i] + cur[i + 1:]
            if cand and bad(cand):
                cur = cand
                again = True
                break
    # canonical form: an instruction that is only there as context becomes Nil, so that the rule
    # shapes left in the minimal input are the ones the failure needs
    if len(cur) <= 64:
        for i in range(len(cur)):
            if cur[i] != ("Nil", 0, 0):
                cand = cur[:i] + [("Nil", 0, 0)] + cur[i + 1:]
                if bad(cand):
                    cur = cand
    return cur


def signature(klass, pkey, minimal):
    """Root cause oriented: failure class + the rule shapes present in the *minimised* input."""
    pats = sorted(pm.patterns(minimal))
    sig = "%s/%s/%s" % (PROPERTY, klass, "+".join(pats) if pats else "none")
    if "drop" in pats:
        sig += "/run>=256" if pm.longest_run(minimal, "Drop") >= 256 else "/run<256"
    if klass == "panic":
        sig += "/" + pkey
    return sig


def make_failure(seq, variant, v, w, counter):
    pkey = panic_key(v.detail) if v.klass == "panic" else None
    minimal = minimise(seq, w, v.klass, pkey, counter)
    mv = judge(minimal, optimise(w, minimal))
    sig = signature(v.klass, pkey, minimal)
    detail = ("%s worker: %s\n  minimal input : %s\n  its output    : %s\n%s\n  full input    : %s\n  full output   : %s"
              % (variant, {"panic": "the optimiser panicked", "crash": "the worker died",
                           "length": "instruction and line vectors differ in length",
                           "labels": "a jump target was lost or duplicated",
                           "semantics": "optimised code behaves differently",
                           "slots": "cache slot pairing broken",
                           "lines": "a line number moved to a different instruction"}[v.klass],
                 pm.fmt(minimal), show_out(mv), indent(mv.detail), pm.fmt(seq), show_out(v)))
    info = {"variant": variant, "class": v.klass, "minimal": pm.fmt(minimal), "minimal_output": show_out(mv),
            "case": enc([("@", variant)] + compact(seq))}
    return Failure(sig, detail, info)


def indent(text):
    return "\n".join("  " + l for l in (text or "").split("\n"))


def show_out(v):
    if v.out is None:
        return "(%s)" % v.klass
    return " ".join("%s@%d" % (pm.fmt1(o), l) for o, l in zip(v.out[:40], v.lines[:40])) + \
        (" ... (%d instructions)" % len(v.out) if len(v.out) > 40 else "") or "(empty)"


# ------------------------------------------------------------------------------------------ case encoding
def expand(case):
    """-> (worker variants to run on, instruction list). A leading ("@", variant) restricts the case to one
    build, so that a replay file reproduces exactly the failure it was written for."""
    seq = []
    variants = VARIANTS
    for item in case:
        item = tuple(item)
        if item and item[0] == "@":
            variants = (item[1],)
        elif item and item[0] == "*":
            seq.extend([(item[2], item[3], item[4])] * item[1])
        else:
            seq.append((item[0], item[1], item[2]))
    return variants, seq


def compact(seq):
    out = []
    i = 0
    while i < len(seq):
        j = i
        while j + 1 < len(seq) and seq[j + 1] == seq[i]:
            j += 1
        if j - i + 1 >= 8:
            out.append(("*", j - i + 1) + tuple(seq[i]))
        else:
            out.extend(tuple(seq[i]) for _ in range(j - i + 1))
        i = j + 1
    return out


def duplicate_label(seq):
    seen = set()
    for (n, a, b) in seq:
        if n == "Label":
            if a in seen:
                return True
            seen.add(a)
    return False


_known = None


def known_sigs():
    global _known
    if _known is None:
        _known = Known().sigs()
    return _known


def evaluate(seq, workers):
    """Run one sequence on every variant. Returns (verdict of the first variant, failures, runs)."""
    counter = [0]
    failures = []
    first = None
    prev = None
    for variant, w in workers:
        resp = optimise(w, seq)
        counter[0] += 1
        if prev is not None and resp.get("outcome") == "ok" and resp.get("syms") == prev[0].get("syms") and \
                resp.get("n_lines") == prev[0].get("n_lines"):
            v = prev[1]
        else:
            v = judge(seq, resp)
        prev = (resp, v)
        if first is None:
            first = v
        if v.klass is not None:
            failures.append(make_failure(seq, variant, v, w, counter))
    return first, failures, counter[0]


def labels_of(seq, v):
    labels = []
    fired = sorted(set(a[0] for a in v.apps))
    for r in fired:
        labels.append("rule:" + r)
    if v.changed:
        labels.append("rule-fired")
    for (r, gs, ge) in v.apps:
        if r in ("invoke", "invoke_super") and seq[ge][1] > 0:
            labels.append("fused-with-args")
            break
    return labels


def outcome_for(seq, workers):
    """(Outcome without a failure attached, list of failures: at most one per worker variant)."""
    v, failures, runs = evaluate(seq, workers)
    labels = labels_of(seq, v)
    if any(i[0] == "Label" for i in seq):
        labels.append("has-label")
    if failures:
        labels.append("failed")
    text = pm.fmt(seq, limit=80)
    sample = "%s => %s" % (text, pm.fmt(v.out, limit=80) if v.out is not None else "(" + str(v.klass) + ")")
    return Outcome(key=text, nontrivial=v.changed or bool(failures), labels=labels, sample=sample, runs=runs), failures


def run_case(case, ctx):
    if case and isinstance(case[0], tuple) and case[0] and case[0][0] == "prog":
        return run_program_case(case, ctx)
    variants, seq = expand(case)
    if any(v not in VARIANTS for v in variants):
        return Outcome(discarded="unknown-variant")
    for ins in seq:
        if ins[0] not in pm.KNOWN:
            return Outcome(discarded="unknown-instruction")
    if duplicate_label(seq):
        return Outcome(excluded="label-defined-twice")
    if not seq:
        return Outcome(discarded="empty")
    o, failures = outcome_for(seq, [(v, ctx.worker(v)) for v in variants])
    o.labels = list(o.labels) + ["build:" + "+".join(variants)]
    if failures:
        # one failure per case: prefer a signature that is not a listed finding
        unknown = [f for f in failures if f.sig not in known_sigs()]
        o.failure = (unknown or failures)[0]
    return o


# --------------------------------------------------------------- (d) whole programs, one rule disabled
# dead code removal is not switched off here: the compiler's stack depth simulation (apply_stack_effects) relies
# on unreachable code having been removed, so that configuration is not one the compiler supports; the rule is
# covered by the window oracle instead
PEEPHOLE_RULE_BITS = {"drop": 1, "invoke": 2, "invoke_super": 4, "eliminate_drop": 8, "load_multiple": 16}


def run_program_case(case, ctx):
    """case = [("prog", profile), ast, mask index]: the program's output must not depend on which peephole
    rules are enabled (hook e: rule-disable bitmask), and must equal the reference evaluator's."""
    from ..lang import printer
    from ..oracle import same_behaviour, crash_failure
    _, profile = case[0]
    prog = case[1]
    names = sorted(PEEPHOLE_RULE_BITS)
    rule = names[case[2] % len(names)]
    try:
        src, _ = printer.to_source(prog)
    except ValueError:
        return Outcome(discarded="unprintable")
    w = ctx.worker("dbg")
    base = w.run(src)
    alt = w.run(src, peephole_mask=PEEPHOLE_RULE_BITS[rule])
    none = w.run(src, peephole_mask=31)
    fail = None
    if base.get("outcome") != "compile_error":
        fail = same_behaviour(PROPERTY, base, alt, src, "all rules", "without " + rule, "program-differential")
        if fail is None:
            fail = same_behaviour(PROPERTY, base, none, src, "all rules", "no rules", "program-differential")
    ran = base.get("outcome") in ("ok", "runtime_error")
    return Outcome(key="prog:" + src, nontrivial=ran, labels=["program", "program:" + profile, "without:" + rule],
                   failure=fail, sample="program (%s) with rule %s disabled: %s" % (profile, rule, src[:200]), runs=3)


def program_strategy(hazards):  # noqa: C901
    from ..lang import gen
    cfgc = gen.Cfg(p_confuse=1, hazards=hazards)
    progs = st.one_of(
        gen.program(cfgc).map(lambda p: [("prog", "core"), p]),
        gen.class_program(gen.Cfg(max_depth=3, p_confuse=0, hazards=hazards)).map(lambda p: [("prog", "class"), p]),
        gen.exc_program(gen.Cfg(max_depth=3, p_confuse=0, exceptions=True, hazards=hazards)).map(
            lambda p: [("prog", "exc"), p]),
        gen.closure_program(gen.Cfg(max_depth=3, p_confuse=0, exceptions=True, hazards=hazards)).map(
            lambda p: [("prog", "closure"), p]))
    return st.tuples(progs, st.integers(0, 5)).map(lambda t: t[0] + [t[1]])


def strategy(hazards):
    # one case in five is a whole program run with one rule disabled (part d), the rest are sequences
    return st.one_of(seq_strategy(hazards), seq_strategy(hazards), seq_strategy(hazards), seq_strategy(hazards),
                     program_strategy(hazards))


# ------------------------------------------------------------------------------------------- Hypothesis
def seq_strategy(hazards):
    slot = st.integers(0, 3)
    label = st.integers(0, 4)
    argc = st.integers(0, 3)
    zero = st.just(0)
    kinds = ("Local", "Box", "Capture", "ModSym")
    load = st.tuples(st.sampled_from(["Get" + k for k in kinds]), slot, zero)
    store = st.tuples(st.sampled_from(["Set" + k for k in kinds]), slot, zero)
    filler = st.sampled_from([("Nil", 0, 0), ("Add", 0, 0), ("Dup", 0, 0), ("True", 0, 0), ("Not", 0, 0),
                              ("Equal", 0, 0), ("Constant", 1, 0), ("Negate", 0, 0), ("PopHandler", 0, 0),
                              ("List", 2, 0), ("GetProp", 1, 0), ("DropN", 2, 0)])
    transfer = st.one_of(st.tuples(st.sampled_from(["Jump", "Loop"]), label, zero),
                         st.sampled_from([("Return", 0, 0), ("Raise", 0, 0)]))
    cond = st.tuples(st.sampled_from(["JumpIfFalse", "And", "Or", "CheckHandler"]), label, zero)
    single = st.one_of(
        st.just(D), load, store, filler, transfer, cond,
        st.tuples(st.just("GetPropByName"), slot, zero), st.just(("PropertySlot", 0, 0)),
        st.tuples(st.just("GetSuper"), slot, zero), st.tuples(st.just("Call"), argc, zero),
        st.just(("ArgumentDelimiter", 0, 0)), st.tuples(st.just("Label"), label, zero),
        st.tuples(st.just("PushHandler"), zero, label),
    ).map(lambda x: [x])
    arg = st.one_of(load, st.just(("Nil", 0, 0))).map(lambda x: [x, ("ArgumentDelimiter", 0, 0)])

    @st.composite
    def invoke_ctx(draw):
        k = draw(argc)
        head = [draw(load), ("GetPropByName", draw(slot), 0), ("PropertySlot", 0, 0)]
        args = [i for _ in range(k) for i in draw(arg)]
        if args and draw(st.integers(0, 7)) == 0:
            args = args[:-1]  # last delimiter missing
        return head + args + [("Call", k, 0)]

    @st.composite
    def super_ctx(draw):
        k = draw(st.integers(0, 2))
        head = [("GetLocal", 0, 0), draw(load), ("GetSuper", draw(slot), 0)]
        args = [i for _ in range(k) for i in draw(arg)]
        return head + args + [("Call", k, 0)]

    @st.composite
    def reload_ctx(draw):
        kind = draw(st.sampled_from(kinds))
        s = draw(slot)
        s2 = s if draw(st.integers(0, 3)) else draw(slot)
        kind2 = kind if draw(st.integers(0, 5)) else draw(st.sampled_from(kinds))
        drops = draw(st.sampled_from([1, 1, 1, 2]))
        return [("Set" + kind, s, 0)] + [D] * drops + [("Get" + kind2, s2, 0)]

    @st.composite
    def load_run(draw):
        l = draw(load)
        out = [l] * draw(st.integers(2, 5))
        if draw(st.integers(0, 3)) == 0:
            out.append((l[0], (l[1] + 1) % 4, 0))
        return out

    @st.composite
    def dead_ctx(draw):
        out = [draw(transfer)]
        out += draw(st.lists(st.one_of(filler, load, store, st.just(D), st.just(("ArgumentDelimiter", 0, 0)),
                                       transfer), max_size=3))
        if draw(st.integers(0, 2)):
            out.append(("Label", draw(label), 0))
        return out

    drop_run = st.integers(2, 6).map(lambda n: [D] * n)
    known_invoke = st.tuples(st.sampled_from(["Invoke", "SuperInvoke"]), slot, argc).map(
        lambda x: [x, ("InvokeSlot", 0, 0)])
    set_prop = st.tuples(st.just("SetPropByName"), slot, zero).map(lambda x: [x, ("PropertySlot", 0, 0)])
    element = st.one_of(single, single, single, invoke_ctx(), super_ctx(), reload_ctx(), load_run(), dead_ctx(),
                        drop_run, known_invoke, set_prop)

    def finish(parts):
        seq = [i for p in parts for i in p][:40]
        seen = set()
        out = []
        for ins in seq:
            if ins[0] == "Label":
                if ins[1] in seen:
                    continue
                seen.add(ins[1])
            out.append(tuple(ins))
        return out

    # each drawn sequence runs on one build (drawn too): a case then has exactly one verdict, which keeps
    # signatures and replays deterministic; the enumerated and boundary parts run every case on both builds
    build = st.sampled_from(VARIANTS).map(lambda v: [("@", v)])
    return st.tuples(build, st.lists(element, min_size=5, max_size=24).map(finish)).map(lambda t: t[0] + t[1])


# ------------------------------------------------------------------------- (a) bounded-exhaustive windows
_pool_workers = None


def _pool_init():
    global _pool_workers
    _pool_workers = [(v, _worker.Worker(v, max_requests=200000)) for v in VARIANTS]


def windows(alpha, n, prefix):
    alphabet = ALPHABETS[alpha]
    head = tuple(alphabet[i] for i in prefix)
    for tail in itertools.product(alphabet, repeat=n - len(prefix)):
        yield head + tail


def _pool_task(task):
    if task[0] == "boundary":
        name, seq = boundary_cases()[task[1]]
        o, failures = outcome_for(seq, _pool_workers)
        return task, name, o, failures
    alpha, n, prefix = task
    masks = bytearray()
    failures = []  # (sig, index in the task, detail, info): first window per signature
    seen_sigs = {}
    samples = {}
    runs = 0
    for idx, win in enumerate(windows(alpha, n, prefix)):
        seq = list(win)
        if duplicate_label(seq):
            masks.append(255)
            continue
        v, fails, r = evaluate(seq, _pool_workers)
        runs += r
        mask = 0
        for a in v.apps:
            mask |= RULE_BIT[a[0]]
        if fails:
            mask = 254
            for f in fails:
                seen_sigs[f.sig] = seen_sigs.get(f.sig, 0) + 1
                if seen_sigs[f.sig] == 1:
                    failures.append((f.sig, idx, f.detail, f.info))
        elif v.changed and len(samples) < 8:
            key = tuple(sorted(set(a[0] for a in v.apps)))
            if key not in samples:
                samples[key] = "%s => %s" % (pm.fmt(seq), pm.fmt(v.out))
        masks.append(mask)
    return task, bytes(masks), failures, seen_sigs, samples, runs


def task_cost(task):
    if task[0] == "boundary":
        return 10 ** 9  # the long boundary sequences (minimisation on failure) go first
    return len(ALPHABETS[task[0]]) ** (task[1] - len(task[2]))


def enumeration_tasks(tier):
    tasks = []
    top = 3 if tier == "quick" else 4
    k = len(ALPHABET)
    for n in range(1, top + 1):
        plen = max(0, n - 2)
        for prefix in itertools.product(range(k), repeat=plen):
            tasks.append(("full", n, prefix))
    if tier != "quick":
        for prefix in itertools.product(range(len(SMALL)), repeat=3):
            tasks.append(("small", 5, prefix))
    return tasks


STATS = {}


def run_pool(tasks):
    """Runs the tasks on a process pool (one debug and one release worker per process)."""
    procs = int(os.environ.get("VERIF_SHARDS", "16"))
    ctx = multiprocessing.get_context("fork")
    order = sorted(range(len(tasks)), key=lambda i: -task_cost(tasks[i]))  # longest first
    results = [None] * len(tasks)
    with ctx.Pool(procs, initializer=_pool_init) as pool:
        for i, res in zip(order, pool.imap(_pool_task, [tasks[i] for i in order], chunksize=1)):
            results[i] = res
        pool.close()
        pool.join()
    return results


def window_outcomes(tier, tasks, results, wall):
    """Generator of runner Outcomes for the enumerated windows."""
    stats = {"alphabet_size": len(ALPHABET), "max_length": 3 if tier == "quick" else 4,
             "sub_alphabet_size": len(SMALL) if tier != "quick" else 0,
             "sub_alphabet_length": 5 if tier != "quick" else 0,
             "windows_enumerated": 0, "windows_excluded_label_defined_twice": 0, "windows_checked": 0,
             "windows_with_rule_fired": 0, "windows_by_length": {}, "windows_failing": 0,
             "rule_fired_in_windows": {r: 0 for r in RULES}, "failure_signatures": {}, "samples": [],
             "optimiser_runs": 0, "pool_wall_s": round(wall, 2)}
    best = {}  # sig -> (len, task index, idx, detail, info)
    sample_by_rule = {}
    for ti, (task, masks, failures, sig_counts, samples, runs) in enumerate(results):
        stats["optimiser_runs"] += runs
        for sig, c in sig_counts.items():
            stats["failure_signatures"][sig] = stats["failure_signatures"].get(sig, 0) + c
        for (sig, idx, detail, info) in failures:
            cand = (task[1], ti, idx, detail, info)
            if sig not in best or cand[:3] < best[sig][:3]:
                best[sig] = cand
        for key, text in samples.items():
            sample_by_rule.setdefault(key, text)
    stats["samples"] = [sample_by_rule[k] for k in sorted(sample_by_rule, key=lambda k: (len(k), k))][:12]
    fail_at = {(b[1], b[2]): (sig, b[3], b[4]) for sig, b in best.items()}
    STATS.update(stats)
    sample_budget = [1]

    def gen():
        for ti, (task, masks, failures, sig_counts, samples, runs) in enumerate(results):
            alpha, n, prefix = task
            for idx, win in enumerate(windows(alpha, n, prefix)):
                m = masks[idx]
                STATS["windows_enumerated"] += 1
                if m == 255:
                    STATS["windows_excluded_label_defined_twice"] += 1
                    continue
                STATS["windows_checked"] += 1
                key = "%s%d" % (alpha[0], n)
                STATS["windows_by_length"][key] = STATS["windows_by_length"].get(key, 0) + 1
                labels = ["window"]
                failure = None
                if m == 254:
                    STATS["windows_failing"] += 1
                    labels.append("failed")
                    hit = fail_at.get((ti, idx))
                    if hit is not None:
                        failure = Failure(hit[0], hit[1], hit[2])
                    yield Outcome(key=pm.fmt(list(win)), nontrivial=True, labels=labels, failure=failure, runs=2)
                    continue
                nontrivial = bool(m & NONTRIVIAL_BITS)
                for r in RULES:
                    if m & RULE_BIT[r]:
                        STATS["rule_fired_in_windows"][r] += 1
                        labels.append("rule:" + r)
                sample = None
                if nontrivial:
                    STATS["windows_with_rule_fired"] += 1
                    labels.append("rule-fired")
                    if sample_budget[0] > 0 and n == 3 and m & (RULE_BIT["eliminate_drop"] | RULE_BIT["invoke"]):
                        sample_budget[0] -= 1
                        sample = next((s for s in STATS["samples"] if s.startswith(pm.fmt(list(win)) + " =>")),
                                      pm.fmt(list(win)))
                yield Outcome(key=pm.fmt(list(win)) if nontrivial else None, nontrivial=nontrivial, labels=labels,
                              sample=sample, runs=2)

    return gen()


# ----------------------------------------------------------------------------- (c) run-length boundaries
def boundary_cases():
    tail = [("Nil", 0, 0), ("GetLocal", 1, 0), ("Add", 0, 0), ("SetLocal", 1, 0), ("Return", 0, 0)]
    out = []
    for n in RUNS:
        out.append(("drops:%d" % n, [D] * n))
        out.append(("drops:%d+tail" % n, [("GetLocal", 1, 0)] + [D] * n + tail))
        out.append(("store+drops:%d+reload" % n, [("SetLocal", 0, 0)] + [D] * n + [("GetLocal", 0, 0)] + tail))
        out.append(("drops:%d|label|drops:%d" % (n, n), [D] * n + [("Label", 0, 0)] + [D] * n + tail))
        out.append(("drops:%d,arg,drops:2" % n, [D] * n + [("ArgumentDelimiter", 0, 0), D, D] + tail))
        out.append(("jump+drops:%d|label" % n, [("JumpIfFalse", 0, 0), D, ("Jump", 1, 0)] + [D] * n +
                    [("Label", 0, 0)] + [D] * n + [("Label", 1, 0)] + tail))
        for name in ("GetLocal", "GetBox", "GetCapture", "GetModSym"):
            out.append(("%s:%d" % (name, n), [(name, 0, 0)] * n + tail))
        out.append(("loads:%d,other" % n, [("GetLocal", 0, 0)] * n + [("GetLocal", 1, 0)] * n + tail))
    return out


def boundary_outcomes(results):
    """One Outcome per boundary case; every distinct failure signature is attached once, to the first
    (smallest) case that shows it, so one run reports each root cause with one replay."""
    outs = []
    reported = set()
    STATS["boundary_failures"] = {}
    for (task, name, o, failures) in results:
        o.labels = list(o.labels) + ["boundary"]
        if name != "drops:255+tail":
            o.sample = None
        outs.append(o)
        for f in failures:
            STATS["boundary_failures"].setdefault(f.sig, []).append(name)
            if f.sig in reported:
                continue
            reported.add(f.sig)
            if o.failure is None:
                o.failure = f
            else:  # the other build fails in a different way on the same case
                outs.append(Outcome(key=o.key, nontrivial=False, labels=["boundary-other-build"], failure=f, runs=0))
    return outs


def extra(tier, ctx):
    """Parts (a) and (c). All the work happens here on a process pool; the runner then consumes a
    generator of Outcomes (one per window / boundary case)."""
    STATS.clear()
    t0 = time.time()
    wtasks = enumeration_tasks(tier)
    btasks = [("boundary", i) for i in range(len(boundary_cases()))]
    results = run_pool(wtasks + btasks)
    wall = time.time() - t0
    bnd = boundary_outcomes(results[len(wtasks):])
    win = window_outcomes(tier, wtasks, results[:len(wtasks)], wall)
    return itertools.chain(win, bnd)


def coverage_extra(tier):
    out = {"exhaustive": True,
           "exhaustive_scope": "part (a) only: all windows up to the stated length over the stated alphabet",
           "enumeration": {k: v for k, v in STATS.items() if k != "boundary_failures"},
           "boundary_runs": list(RUNS), "boundary_cases": len(boundary_cases()),
           "boundary_failures": {sig: {"cases": len(names), "first": names[0]}
                                 for sig, names in STATS.get("boundary_failures", {}).items()}}
    return out
