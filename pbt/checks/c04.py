"""C04 Exceptions transfer control to the right handler and preserve program state."""
from hypothesis import strategies as st

from ..lang import gen, printer
from ..oracle import compare_model
from ..runner import Outcome
from .common import run_model, short

PROPERTY = "C04"
LEVEL = "exploration"
VARIANTS = ("dbg", "rel")
RULE = ("Hypothesis draws a core-grammar program in which ~30% of statements are try/catch: tries at module level, in "
        "functions/lambdas with 0-3 parameters and drawn locals and temporaries before them, in loops, nested <= 3; the "
        "try body ends in a drawn raise source (explicit raise of Error/builtin/user subclasses up to 3 levels, a call "
        "into a chain of raiser functions 1-4 frames deep with their own parameters/locals, a runtime fault (type, "
        "index, key, non-callable, undefined property), a raise inside a native callback (each / map..list / "
        "filter..list), or break/continue/return, or nothing); 1-3 catch clauses with matching, ancestor, unrelated or "
        "no class filter, sometimes raising while handling; after every try all scalars in scope are printed and two "
        "new variables are declared and used. One program in four also launches, at module level, a worker fiber that "
        "catches an error of its own (before or after reporting through a channel, or both) and ends while main, which "
        "may just have caught an error itself, waits for the report. Compared with the reference evaluator on debug and release workers. "
        "Non-trivial: an error crossed >= 1 call frame to its handler, or a try was left by break/continue/return and "
        "an error was raised afterwards (model trace); distinct by program text.")
ASSUMPTIONS = ["reference evaluator's exception semantics (nearest dynamically enclosing matching handler, catch "
               "clauses tried in order, variables keep their values)", "error messages of runtime faults are not "
               "compared, only classes; explicit raise messages are program supplied and are compared when printed"]
GATES = {"error_crossed_frame": 0.25, "left_try_then_raise": 0.02, "nontrivial": 0.25}
LEVEL_TEXT = ("Generated-program search against an independent exception-semantics model; finds wrong-handler, lost "
              "state and stale-handler violations in generated placements; bounded by the generator's nesting and "
              "shapes.")
LEVEL_NOTE = "Trusted base: reference evaluator, printer, worker harness, Hypothesis."
TECHNIQUE = "property-based testing (Hypothesis): model-based oracle over generated try/catch placements"


def cases(tier):
    return 3200 if tier == "quick" else 320000


def strategy(hazards):
    return gen.exc_program(gen.Cfg(max_depth=3, p_confuse=0, exceptions=True, exc_fibers=True, hazards=hazards))


def run_case(case, ctx):
    prog = case
    src, lines = printer.to_source(prog)
    res, why = run_model(prog, lines, fibers=True)
    if res is None:
        return Outcome(discarded=why)
    labels = sorted(l for l in res.labels if not l.startswith("cap:")) + ["outcome:" + res.outcome]
    nontrivial = bool(res.labels & {"error_crossed_frame", "left_try_then_raise"})
    if nontrivial:
        labels.append("nontrivial")
    if res.counts.get("caught"):
        labels.append("caught")
    if "launch " in src:
        labels.append("fiber-catches")
    runs = 0
    fail = None
    for variant in ("dbg", "rel"):
        r = ctx.worker(variant).run(src)
        runs += 1
        fail = compare_model(PROPERTY, res, r, src, variant)
        if fail is not None:
            break
    return Outcome(key=src, nontrivial=nontrivial, labels=labels, failure=fail, sample=short(src, 1200), runs=runs)
