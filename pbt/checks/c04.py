"""C04 Exceptions transfer control to the right handler and preserve program state."""
from hypothesis import strategies as st

from ..lang import gen, printer, shadow
from ..oracle import compare_model
from ..runner import Outcome
from .common import run_model, short
from . import implicit

PROPERTY = "C04"
LEVEL = "exploration"
VARIANTS = ("dbg", "rel")
RULE = ("Hypothesis draws a core-grammar program in which ~30% of statements are try/catch: tries at module level, in "
        "functions/lambdas with 0-3 parameters and drawn locals and temporaries before them, in loops, nested <= 3; the "
        "try body ends in a drawn raise source (explicit raise of Error/builtin/user subclasses up to 3 levels, a call "
        "into a chain of raiser functions 1-4 frames deep with their own parameters/locals, a runtime fault (type, "
        "index, key, non-callable, undefined property), a raise inside a native callback (each / map..list / "
        "filter..list), or break/continue/return, or nothing); 1-3 catch clauses with matching, ancestor, unrelated or "
        "no class filter, sometimes raising while handling; after every try all scalars in scope are printed and two "
        "new variables are declared and used. One program in four also launches, at module level, a worker fiber that "
        "catches an error of its own (before or after reporting through a channel, or both) and ends while main, which "
        "may just have caught an error itself, waits for the report. Compared with the reference evaluator on debug and release workers. "
        "Non-trivial: an error crossed >= 1 call frame to its handler, or a try was left by break/continue/return and "
        "an error was raised afterwards (model trace); distinct by program text. "
        "In one program in four up to two user declarations (variables, parameters, classes) are renamed to builtin class names the program text does not mention (Object, Error, List, ...: pbt/lang/shadow.py globalize): what the language does implicitly (the superclass of a class that names none, the class of a blank catch, literals) must not go through the user's scope.")
ASSUMPTIONS = ["reference evaluator's exception semantics (nearest dynamically enclosing matching handler, catch "
               "clauses tried in order, variables keep their values)", "error messages of runtime faults are not "
               "compared, only classes; explicit raise messages are program supplied and are compared when printed"]
GATES = {"error_crossed_frame": 0.25, "left_try_then_raise": 0.02, "nontrivial": 0.25}
LEVEL_TEXT = ("Generated-program search against an independent exception-semantics model; finds wrong-handler, lost "
              "state and stale-handler violations in generated placements; bounded by the generator's nesting and "
              "shapes.")
LEVEL_NOTE = "Trusted base: reference evaluator, printer, worker harness, Hypothesis."
TECHNIQUE = "property-based testing (Hypothesis): model-based oracle over generated try/catch placements"


def cases(tier):
    return 3200 if tier == "quick" else 120000


def strategy(hazards):
    # second / third component: renames of user declarations to builtin class names (pbt/lang/shadow.py globalize) and
    # the names not handed out because of a known finding
    banned = [n for n, h in (("Object", implicit.HAZ_OBJECT), ("Error", implicit.HAZ_ERROR)) if h in hazards]
    return st.tuples(gen.exc_program(gen.Cfg(max_depth=3, p_confuse=0, exceptions=True, exc_fibers=True, hazards=hazards)),
                     st.one_of(st.just([]), st.just([]), st.just([]), st.just([]), st.lists(st.integers(0, 1000), min_size=2, max_size=4)),
                     st.just(banned))


def extra(tier, ctx):
    return [implicit.run_scenario(n, ctx) for n in implicit.scenarios_of(PROPERTY)]


def run_case(case, ctx):
    renamed = []
    if isinstance(case, tuple) and len(case) == 2 and case[0] == "implicit":
        return implicit.run_scenario(case[1], ctx)
    if isinstance(case, tuple) and len(case) == 3 and isinstance(case[0], list):
        prog, gpicks, banned = case
        if gpicks:
            prog, renamed = shadow.globalize(prog, gpicks, printer.to_source(prog)[0], banned)
    else:
        prog = case  # (replay files written before the renaming pass existed hold the bare program)
    src, lines = printer.to_source(prog)
    res, why = run_model(prog, lines, fibers=True)
    if res is None:
        return Outcome(discarded=why)
    labels = sorted(l for l in res.labels if not l.startswith("cap:")) + ["outcome:" + res.outcome]
    nontrivial = bool(res.labels & {"error_crossed_frame", "left_try_then_raise"})
    if nontrivial:
        labels.append("nontrivial")
    if res.counts.get("caught"):
        labels.append("caught")
    if "launch " in src:
        labels.append("fiber-catches")
    if renamed:
        labels.append("global-name-shadowed")
    runs = 0
    fail = None
    for variant in ("dbg", "rel"):
        r = ctx.worker(variant).run(src)
        runs += 1
        fail = compare_model(PROPERTY, res, r, src, variant)
        if fail is not None:
            break
    return Outcome(key=src, nontrivial=nontrivial, labels=labels, failure=fail, sample=short(src, 1200), runs=runs)
