"""C20 Garbage is reclaimed and heap accounting is exact after a full collection."""
from hypothesis import strategies as st

from .. import worker as W
from ..lang import printer
from ..oracle import crash_failure
from ..runner import Failure, Outcome
from .common import short

PROPERTY = "C20"
LEVEL = "exploration"
VARIANTS = ("dbg", "rel", "nan-dbg", "nan-rel")
RULE = ("Hypothesis draws a program with a known live set at its end (K module-level variables bound to lists, maps, "
        "tuples, instances and concatenated strings of drawn sizes and nesting) that also produces a drawn amount n of "
        "garbage of drawn kinds (growing lists, concatenated strings, instances, closures, iterator chains, maps, "
        "tuples, fibers that finish) under a drawn collection schedule (byte threshold / every k-th allocation, so "
        "nursery and full collections interleave), followed by a fixed stack-wiping epilogue. After the main fiber "
        "ends the worker takes heap statistics after the run, after one more collection of the allocator's own choice, "
        "and after forced full collections (hook c). Oracles: (1) bytes_allocated == sum of size() recomputed over all "
        "three heaps, after the full and after the natural collection; (2) next_gc == 2 x bytes_allocated; (3) intern "
        "table length == number of live String objects, every key equals its value's bytes, none dangling; (4) object "
        "counts of List/Map/Tuple/Instance/Channel minus those of the same program with an empty live set and n=0 == "
        "the drawn live set; (5) metamorphic: every kind count, bytes_allocated and the harness allocator's live block "
        "count are equal for n, 2n and 4n; (6) the harness allocator saw zero dealloc layout mismatches during the run "
        "and the drop of the vm; (7) no temporary root is left behind; (8) with the collector off, bytes_allocated at the end of the run == sum of size() of everything ever allocated (no allocation path forgets to count). Non-trivial: >= 1 nursery and >= 1 full "
        "collection happened during the run and >= 100 objects were freed; distinct by program + schedule.")
ASSUMPTIONS = ["a fiber keeps the last error it caught alive until the next one (a constant, not growth): every program and "
               "its baseline end with the same caught error",
               "the collector conservatively traces whole fiber stacks, so the program ends with a deep call that "
               "overwrites dead stack slots with nil before the statistics are taken",
               "strings, functions, classes and closures are also held by chunks / caches and are judged only by "
               "oracles 1, 3 and 5"]
GATES = {"nursery+full+100freed": 0.40}
LEVEL_TEXT = ("Generated allocation/drop histories with exact accounting invariants read through hooks and an "
              "independent harness allocator; scaled-pair metamorphic relation for boundedness. Bounded by the "
              "generated garbage kinds and sizes.")
LEVEL_NOTE = ("Trusted base: heap statistics hook (walks the allocator's handle vectors), harness allocator headers, "
              "gc schedule hook.")
TECHNIQUE = "property-based testing (Hypothesis): invariant + metamorphic oracles over generated allocation histories"

KINDS = ["Channel", "Class", "Closure", "Enumerator", "Fun", "Instance", "List", "Map", "Method", "Native", "String",
         "LyBox", "Tuple"]
COUNTED = ["List", "Map", "Tuple", "Instance", "Channel"]

N = lambda x: ("num", float(x))  # noqa: E731
V = lambda n: ("var", n)  # noqa: E731


def cases(tier):
    return 480 if tier == "quick" else 32000


def keep_strategy():
    leaf = st.one_of(st.integers(0, 9).map(lambda i: ("n", i)), st.just(("s",)))
    node = st.recursive(leaf, lambda ch: st.one_of(
        st.lists(ch, min_size=0, max_size=5).map(lambda l: ("list", l)),
        st.lists(ch, min_size=0, max_size=4).map(lambda l: ("tuple", l)),
        st.lists(ch, min_size=0, max_size=3).map(lambda l: ("map", l)),
        ch.map(lambda c: ("inst", c)),
        st.just(("chan",)),
    ), max_leaves=8)
    return st.lists(node, min_size=0, max_size=5)


HAZARD_CHANNELS = "fresh-channels-on-long-lived-fiber"


def strategy(hazards):
    kinds = st.integers(0, 11)
    if HAZARD_CHANNELS in hazards:
        # known finding: a fiber keeps every channel it ever used alive until it completes, so channels
        # created as garbage by the (long lived) main fiber are never reclaimed. Excluded by construction.
        kinds = kinds.map(lambda k: 0 if k == 7 else k)
    garbage = st.lists(kinds, min_size=1, max_size=5)
    sched = st.one_of(st.integers(2000, 60000).map(lambda n: ("bytes", n)),
                      st.integers(20, 400).map(lambda k: ("every_kth", k)))
    return st.tuples(keep_strategy(), garbage, st.integers(30, 400), sched, st.integers(0, 3))


def keep_expr(node, counts, uid):
    k = node[0]
    if k == "n":
        return N(node[1])
    if k == "s":
        uid[0] += 1
        # built at run time: not a chunk constant
        return ("bin", "+", ("str", "keep"), ("call", ("prop", N(uid[0]), "str"), []))
    if k == "list":
        counts["List"] += 1
        return ("list", [keep_expr(c, counts, uid) for c in node[1]])
    if k == "tuple":
        counts["Tuple"] += 1
        return ("tuple", [keep_expr(c, counts, uid) for c in node[1]])
    if k == "map":
        counts["Map"] += 1
        return ("map", [(N(i), keep_expr(c, counts, uid)) for i, c in enumerate(node[1])])
    if k == "inst":
        counts["Instance"] += 1
        return ("call", V("Keep"), [keep_expr(node[1], counts, uid)])
    if k == "chan":
        counts["Channel"] += 1
        return ("chan", N(2))
    raise AssertionError(k)


GARBAGE = [
    # each is a statement list using loop variable i
    lambda: [("let", "l", ("list", [V("i"), ("bin", "+", V("i"), N(1))])), ("expr", ("call", ("prop", V("l"), "push"), [V("i"), V("i"), V("i"), V("i")]))],
    lambda: [("let", "s", ("bin", "+", ("str", "g"), ("call", ("prop", V("i"), "str"), []))), ("let", "t", ("bin", "+", V("s"), V("s")))],
    lambda: [("let", "o", ("call", V("Keep"), [("list", [V("i")])]))],
    lambda: [("let", "j", V("i")), ("let", "g", ("lambda", [], ("expr", ("bin", "+", V("j"), N(1))))), ("expr", ("call", V("g"), []))],
    lambda: [("let", "r", ("call", ("prop", ("call", ("prop", ("call", ("prop", ("list", [V("i"), N(2), N(3)]), "iter"), []), "map"), [("lambda", ["x"], ("expr", ("bin", "*", V("x"), N(2))))]), "list"), []))],
    lambda: [("let", "m", ("map", [(V("i"), ("list", [V("i")])), (("str", "k"), ("tuple", [V("i"), V("i")]))]))],
    lambda: [("let", "t", ("tuple", [V("i"), ("interp", ["v", V("i")])]))],
    lambda: [("let", "c", ("chan", N(3))), ("expr", ("send", V("c"), ("list", [V("i")]))), ("let", "x", ("recv", V("c")))],
    lambda: [("launch", ("call", V("fib"), [V("i")]))],
    # natives that fail half way: a callback raising under each / reduce / sort, caught right away. Whatever the
    # native had rooted for the duration of the call must be released although it never reached its own clean up
    lambda: [("try", [("expr", ("call", ("prop", ("call", ("prop", ("list", [V("i"), N(1)]), "iter"), []),
                                          ["each", "all", "any"][0]), [("lambda", ["x"], ("expr", ("bin", "+", ("nil",), V("x"))))]))],
              [("e", None, [])])],
    lambda: [("try", [("expr", ("call", ("prop", ("list", [V("i"), N(1), N(0)]), "sort"),
                                [("lambda", ["a", "b"], ("expr", ("call", ("nil",), [])))]))], [("e", None, [])]),
             ("try", [("expr", ("call", ("prop", ("call", ("prop", ("list", [V("i")]), "iter"), []), "reduce"),
                                [N(0), ("lambda", ["a", "x"], ("expr", ("index", ("list", []), V("x"))))]))], [("e", None, [])])],
    # (kind 11 is the relay of fibers, built once per program in build_program; per iteration it is a plain tuple)
    lambda: [("let", "t", ("tuple", [V("i"), V("i")]))],
]


def build_program(keep, garbage):
    counts = {k: 0 for k in COUNTED}
    uid = [0]
    prog = [
        # the amount of garbage comes from the scripted input so that scaled runs share one program text
        ("import", ["std", "io", "stdio"], ("syms", [("stdin", None)])),
        ("let", "scale", ("call", ("prop", V("Number"), "parse"), [("call", ("prop", V("stdin"), "readLine"), [])])),
        ("class", "Keep", None, ("init", ["v"], [("expr", ("assign", ("prop", ("self",), "v"), V("v")))]), [], []),
        ("fn", "fib", ["x"], [("let", "junk", ("list", [V("x"), V("x")])), ("return", ("call", ("prop", V("junk"), "len"), []))]),
    ]
    body = []
    for gi in garbage:
        body.extend(GARBAGE[gi % len(GARBAGE)]())
    # rename locals so several garbage kinds do not collide
    prog.append(("fn", "garbage", ["n"], [("for", "i", ("call", ("prop", V("n"), "times"), []), [("if", ("true",), [s], None) for s in []] + [("expr", ("call", ("lambda", [], ("block", chunk + [("return", ("nil",))])), [])) for chunk in chunks(body, garbage)])]))
    for idx, node in enumerate(keep):
        prog.append(("let", "keep%d" % idx, keep_expr(node, counts, uid)))
    prog.append(("expr", ("call", V("garbage"), [V("scale")])))
    if 11 in [g % 12 for g in garbage]:
        # a relay: every fiber launches the next and ends, the last one stays parked on a channel the program keeps.
        # Whatever the length of the relay, one fiber is alive at the end
        prog.append(("let", "hold", ("chan", None)))
        prog.append(("let", "fin", ("chan", N(1))))
        # (both channels are in the baseline program too: they do not count as part of the drawn live set)
        prog.append(("fn", "relay", ["k"], [("if", ("bin", ">", V("k"), N(0)), [("launch", ("call", V("relay"), [("bin", "-", V("k"), N(1))]))],
                                             [("expr", ("send", V("fin"), N(1))), ("let", "parked", ("recv", V("hold")))])]))
        prog.append(("launch", ("call", V("relay"), [V("scale")])))
        # (main waits until the relay has reached its last fiber)
        prog.append(("let", "reached", ("recv", V("fin"))))
    # a fiber keeps the last error it caught (one instance and its back trace) until the next one: end every program,
    # the baseline too, with the same caught error so that this constant does not count as part of the live set
    prog.append(("try", [("expr", ("bin", "+", ("nil",), N(1)))], [("e", None, [])]))
    # let launched fibers run to completion: receive from a channel fed by a fiber launched last
    prog.append(("let", "done", ("chan", N(1))))
    counts["Channel"] += 1
    prog.append(("fn", "finish", ["c"], [("expr", ("send", V("c"), N(1)))]))
    prog.append(("launch", ("call", V("finish"), [V("done")])))
    prog.append(("let", "ack", ("recv", V("done"))))
    wipe_body = [("let", "w%d" % i, ("nil",)) for i in range(10)]
    wipe_body.append(("if", ("bin", ">", V("d"), N(0)), [("expr", ("call", V("wipe"), [("bin", "-", V("d"), N(1))]))], None))
    prog.append(("fn", "wipe", ["d"], wipe_body))
    prog.append(("expr", ("call", V("wipe"), [N(40)])))
    return prog, counts


def chunks(body, garbage):
    """One closure body per garbage kind (each has its own locals)."""
    out = []
    for gi in garbage:
        out.append(GARBAGE[gi % len(GARBAGE)]())
    return out


def snapshot(r, at):
    for h in r.get("heap", []):
        if h["at"] == at:
            return h
    return None


def invariants(h, what, src):
    """Oracles 1, 2, 3, 7 on one snapshot taken right after a collection."""
    if h is None:
        return Failure("%s/no-snapshot" % PROPERTY, "no heap snapshot %s" % what, {"source": src})
    if h["bytes_allocated"] != h["recomputed_bytes"]:
        return Failure("%s/bytes-allocated-vs-sum-of-sizes/%s" % (PROPERTY, what.split()[0]),
                       "%s: bytes_allocated=%d but the objects present sum to %d (diff %d)\n--- source\n%s" %
                       (what, h["bytes_allocated"], h["recomputed_bytes"], h["bytes_allocated"] - h["recomputed_bytes"], src),
                       {"source": src, "heap": h})
    if h["next_gc"] != 2 * h["bytes_allocated"]:
        return Failure("%s/next-gc-threshold" % PROPERTY, "%s: next_gc=%d, bytes_allocated=%d\n--- source\n%s" %
                       (what, h["next_gc"], h["bytes_allocated"], src), {"source": src, "heap": h})
    if h["intern_mismatch"] or h["intern_dangling"]:
        return Failure("%s/intern-table-corrupt" % PROPERTY, "%s: %d intern keys differ from their value, %d dangling\n--- source\n%s" %
                       (what, h["intern_mismatch"], h["intern_dangling"], src), {"source": src, "heap": h})
    return None


def run_case(case, ctx):
    keep, garbage, n, sched, vsel = case
    variant = VARIANTS[vsel % 4]
    w = ctx.worker(variant)
    sched = tuple(sched)
    prog, counts = build_program(keep, garbage)
    base_prog, _ = build_program([], garbage)
    try:
        src = printer.to_source(prog)[0]
        base_src = printer.to_source(base_prog)[0]
    except ValueError:
        return Outcome(discarded="unprintable")
    runs = 0
    r = w.run(src, mode=W.MODE_RUN_COLLECT, schedule=sched, lines=["%06d" % n])
    runs += 1
    fail = crash_failure(PROPERTY, r, src, variant)
    labels = ["build:" + variant, "sched:" + sched[0]]
    nontrivial = False
    if fail is None and r.get("outcome") != "ok":
        return Outcome(discarded="program-error:" + str(r.get("stderr"))[-60:])
    if fail is None:
        run_h = snapshot(r, "after_run")
        gc = r.get("gc", {})
        nontrivial = gc.get("collections", 0) >= 10 and gc.get("freed", 0) >= 100
        if nontrivial:
            labels.append("nursery+full+100freed")
        full = snapshot(r, "after_second_full_collect")
        fail = invariants(snapshot(r, "after_natural_collect"), "after a collection of the allocator's choice", src) or \
            invariants(snapshot(r, "after_full_collect"), "after a full collection", src) or \
            invariants(full, "after a second full collection", src)
        if fail is None and full["intern_len"] != full["strings"]:
            fail = Failure("%s/intern-table-size" % PROPERTY, "after a full collection the intern table has %d entries "
                           "but %d String objects are alive\n--- source\n%s" % (full["intern_len"], full["strings"], src),
                           {"source": src, "heap": full})
        if fail is None and r.get("alloc", {}).get("mismatches", 0) > 0:
            fail = Failure("%s/dealloc-layout-mismatch" % PROPERTY,
                           "%d blocks were released with a layout other than the one they were allocated with; first "
                           "(alloc size, align, dealloc size, align): %s\n--- source\n%s" %
                           (r["alloc"]["mismatches"], r["alloc"]["samples"], src), {"source": src})
    if fail is None:
        # oracle 8: with the collector off every allocation ever made is still present, so the running byte count must
        # equal the sum of their sizes (an allocation path that forgets to count shows here; after a collection the
        # count is recomputed, which would hide it)
        nv = w.run(src, mode=W.MODE_RUN_COLLECT, schedule=W.NEVER, lines=["%06d" % min(n, 300)])
        runs += 1
        nh = snapshot(nv, "after_run")
        if nv.get("outcome") == "ok" and nh is not None and nh["bytes_allocated"] != nh["recomputed_bytes"]:
            fail = Failure("%s/allocation-not-counted" % PROPERTY,
                           "with the collector off the program ended with bytes_allocated=%d but the allocations present sum "
                           "to %d (diff %d)\n--- source\n%s" % (nh["bytes_allocated"], nh["recomputed_bytes"],
                                                              nh["bytes_allocated"] - nh["recomputed_bytes"], src),
                           {"source": src, "heap": nh})
    if fail is None:
        # oracle 4: live set
        b = w.run(base_src, mode=W.MODE_RUN_COLLECT, schedule=sched, lines=["%06d" % 0])
        runs += 1
        bfull = snapshot(b, "after_second_full_collect")
        if b.get("outcome") == "ok" and bfull is not None and full["temp_roots"] != bfull["temp_roots"]:
            # (the standard library leaves a constant number of temporary roots behind at start up)
            fail = Failure("%s/temp-roots-left" % PROPERTY,
                           "%d temporary roots are left after the run, %d after the baseline program\n--- source\n%s" %
                           (full["temp_roots"], bfull["temp_roots"], src), {"source": src})
        elif b.get("outcome") == "ok" and bfull is not None:
            for kind in COUNTED:
                ki = KINDS.index(kind)
                got = full["kind_counts"][ki] - bfull["kind_counts"][ki]
                want = counts[kind] - (1 if kind == "Channel" else 0)  # the done channel is in the baseline too
                if got != want:
                    fail = Failure("%s/live-set/%s" % (PROPERTY, kind),
                                   "after a full collection %d %s objects are alive beyond the baseline program, the "
                                   "program keeps %d reachable\n--- source\n%s" % (got, kind, want, src),
                                   {"source": src, "kind_counts": full["kind_counts"], "baseline": bfull["kind_counts"]})
                    break
    if fail is None:
        # oracle 5: bounded memory, scaled pair
        for factor in (2, 4):
            r2 = w.run(src, mode=W.MODE_RUN_COLLECT, schedule=sched, lines=["%06d" % (n * factor)])
            runs += 1
            f2 = snapshot(r2, "after_second_full_collect")
            if r2.get("outcome") != "ok" or f2 is None:
                continue
            if f2["kind_counts"] != full["kind_counts"] or f2["bytes_allocated"] != full["bytes_allocated"] or \
                    f2["other_objects"] != full["other_objects"]:
                diff = {KINDS[i]: (a, b) for i, (a, b) in enumerate(zip(full["kind_counts"], f2["kind_counts"])) if a != b}
                fail = Failure("%s/grows-with-garbage" % PROPERTY,
                               "live heap after a full collection depends on the amount of garbage: n=%d vs n=%d: kinds %s, "
                               "bytes_allocated %d vs %d, other objects %d vs %d\n--- source (n=%d)\n%s" %
                               (n, n * factor, diff, full["bytes_allocated"], f2["bytes_allocated"], full["other_objects"],
                                f2["other_objects"], n, src), {"source": src})
                break
            if f2["harness_live_blocks"] != full["harness_live_blocks"]:
                fail = Failure("%s/host-blocks-grow-with-garbage" % PROPERTY,
                               "the number of live host allocations after a full collection depends on the amount of garbage: "
                               "%d (n=%d) vs %d (n=%d)\n--- source\n%s" % (full["harness_live_blocks"], n,
                                                                            f2["harness_live_blocks"], n * factor, src),
                               {"source": src})
                break
    return Outcome(key=src + repr(sched), nontrivial=nontrivial, labels=labels, failure=fail,
                   sample={"keep": repr(keep)[:200], "garbage_kinds": garbage, "n": n, "schedule": list(sched)}, runs=runs)
