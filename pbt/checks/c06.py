"""C06 Emitted bytecode respects the stack contract the unchecked VM relies on."""
import glob
import os

from hypothesis import strategies as st

from .. import shrink
from .. import worker as W
from ..build import repo_path
from ..lang import gen, printer
from ..oracle import crash_failure
from ..runner import Failure, Outcome, enc
from .common import short

PROPERTY = "C06"
LEVEL = "exploration"
VARIANTS = ("dbg",)
RULE = ("Every function of every accepted program from (a) Hypothesis programs of the core, closure, class, "
        "exception and fiber/channel profiles (known-finding hazards that only crash at run time are left on: the "
        "verifier, not execution, is the oracle), and (b) every fixture script under laythe_vm/fixture/{language,"
        "std_lib} that compiles, is dumped through the compile_dump hook and analysed by the independent bytecode "
        "verifier in the worker (own decoder and operand-width table, stack effects transcribed from the interpreter, "
        "CFG + worklist abstract interpretation of (stack depth, active handler count)): instruction boundaries and "
        "jump targets, one depth per program point, no underflow below the fixed slots, every local/box slot operand "
        "below the current depth, max depth within what push_frame/Fiber::split/Fiber::new reserve, >= one value at "
        "each Return and no active handler there, PushHandler operand == abstract depth, constant/capture/cache-slot "
        "indices in range and of the right kind. Non-trivial: a program with >= 1 function whose CFG has a branch, loop "
        "or handler; distinct by the code bytes of all its functions.")
ASSUMPTIONS = ["the verifier's stack-effect table is transcribed from laythe_vm/src/vm/ops.rs (normal, non-error path "
               "of each op); Launch is modelled for the closure case",
               "'exactly one value at each return' is checked as 'at least one value above the fixed slots and no "
               "handler active': the number of declared variables live at a Return is not recoverable from the dump",
               "fixed-index GetProp/SetProp operands cannot be range checked statically"]
GATES = {"multi_path": 0.30}
LEVEL_TEXT = ("Static analysis of every path of every generated function by an independent verifier: for the programs "
              "generated (and the fixture corpus) the stack contract is decided over all CFG paths, not only the "
              "executed one. No claim for programs the generators cannot produce.")
LEVEL_NOTE = ("Trusted base: harness/worker/src/verifier.rs (decoder, effect table, abstract interpreter), the "
              "compile_dump hook, the generators. The verifier was validated on the fixture corpus (0 findings on the "
              "repaired tree) and flags each of the defects repaired by the fix: commits when they are reverted.")
TECHNIQUE = "property-based testing (Hypothesis) with a static bytecode verifier as the in-worker oracle"


def cases(tier):
    return 4000 if tier == "quick" else 100000


def strategy(hazards):
    hz = set()  # run-time-only hazards stay on
    cfgc = gen.Cfg(p_confuse=1, hazards=hz)
    cfg3 = gen.Cfg(max_depth=3, p_confuse=0, exceptions=True, hazards=hz)
    strategies = [
        gen.program(cfgc).map(lambda p: ("core", p)),
        gen.class_program(cfg3).map(lambda p: ("class", p)),
        gen.exc_program(cfg3).map(lambda p: ("exc", p)),
        gen.exc_program(cfg3).map(lambda p: ("exc", p)),
        gen.closure_program(cfg3).map(lambda p: ("closure", p)),
    ]
    if hasattr(gen, "fiber_program"):
        strategies.append(gen.fiber_program(cfg3).map(lambda p: ("fiber", p)))
    return st.tuples(st.one_of(*strategies), st.integers(0, 1 << 20)).map(lambda t: (t[0][0], t[0][1], t[1]))


STMT_TAGS = {"expr", "print", "let", "fn", "class", "if", "while", "for", "break", "continue", "return", "implicit",
             "try", "raise", "launch", "export", "import"}
TERMINATORS = {"break", "continue", "return", "raise", "implicit"}
PROBE = ("expr", ("list", [("num", float(i)) for i in range(14)]))
_N = lambda x: ("num", float(x))  # noqa: E731
# statements that put rarely generated instructions into drawn blocks (so that jumps, loops and handlers cross them:
# an instruction whose encoded length the compiler gets wrong moves every target behind it off a boundary)
ZOO = [
    [PROBE],
    [("expr", ("chan", _N(2)))],
    [("expr", ("chan", None))],
    [("let", "zqc", ("chan", _N(1))), ("expr", ("send", ("var", "zqc"), _N(1))), ("let", "zqr", ("recv", ("var", "zqc")))],
    [("let", "zqt", ("tuple", [_N(1), _N(2), ("str", "t")]))],
    [("let", "zqm", ("map", [(_N(1), _N(2)), (("str", "k"), ("list", []))]))],
    [("let", "zqi", ("interp", ["a", _N(1), "b", ("str", "c"), "d"]))],
    [("try", [("raise", ("call", ("var", "Error"), [("str", "zoo")]))], [("zqe", None, [("expr", ("prop", ("var", "zqe"), "message"))])])],
    [("try", [("expr", _N(1))], [("zqe", "TypeError", []), ("zqf", "Error", [])])],
    [("for", "zqk", ("call", ("prop", _N(2), "times"), []), [("expr", ("var", "zqk"))])],
    [("launch", ("call", ("lambda", [], ("expr", _N(1))), []))],
    [("let", "zql", ("lambda", ["a", "b"], ("expr", ("bin", "+", ("var", "a"), ("var", "b"))))),
     ("expr", ("call", ("var", "zql"), [_N(1), _N(2)]))],
    [("let", "zqo", ("list", [_N(1)])), ("expr", ("assign", ("index", ("var", "zqo"), _N(0)), _N(5))),
     ("expr", ("opassign", "+", ("index", ("var", "zqo"), _N(0)), _N(1)))],
    [("let", "zqb", _N(1)), ("let", "zqg", ("lambda", [], ("block", [("expr", ("opassign", "+", ("var", "zqb"), _N(1))), ("return", ("var", "zqb"))]))),
     ("expr", ("call", ("var", "zqg"), []))],
    [("expr", ("tern", ("bin", "&&", ("true",), ("bin", "||", ("nil",), _N(1))), _N(2), _N(3)))],
    [("expr", ("un", "!", ("un", "-", _N(1))))],
]


def _stmt_lists(node, path, out):
    if isinstance(node, list):
        if node and all(isinstance(x, tuple) and x and isinstance(x[0], str) and x[0] in STMT_TAGS for x in node):
            out.append(path)
        for i, c in enumerate(node):
            _stmt_lists(c, path + (i,), out)
    elif isinstance(node, tuple):
        for i, c in enumerate(node):
            if isinstance(c, (list, tuple)):
                _stmt_lists(c, path + (i,), out)


def insert_probe(prog, sel):
    """One statement that needs 14 operand slots, placed at a drawn point of a drawn block: the function's deepest
    point then lies wherever the draw put it (after a break in an else arm, inside a catch, after a loop ...), so an
    under-counted depth at that point shows as max depth > reserved instead of hiding below the maximum reached
    elsewhere."""
    lists = []
    _stmt_lists(prog, (), lists)
    if not lists:
        return prog
    path = lists[sel % len(lists)]
    node = prog
    for i in path:
        node = node[i]
    limit = len(node)
    for i, s_ in enumerate(node):
        if s_[0] in TERMINATORS:
            limit = i
            break
    pos = (sel // len(lists)) % (limit + 1)
    zoo = ZOO[(sel // (len(lists) * (limit + 1))) % len(ZOO)] if (sel & 1) else [PROBE]
    new = node[:pos] + list(zoo) + node[pos:]
    return shrink._replace(prog, path, new)


def judge(r, src, what):
    """-> (failure, nontrivial, key, labels)"""
    f = crash_failure(PROPERTY, r, src, "compiling " + what)
    if f is not None:
        return f, False, None, ["crash"]
    if r.get("outcome") != "ok" or "verify" not in r:
        return None, False, None, ["rejected"]
    v = r["verify"]
    funs = v.get("funs", [])
    nontrivial = any(f_.get("paths_gt1") for f_ in funs)
    key = "|".join(",".join(map(str, f_["code"])) for f_ in r["dump"]["funs"])
    labels = ["accepted"]
    if nontrivial:
        labels.append("multi_path")
    if any(f_.get("handlers") for f_ in funs):
        labels.append("has_handler")
    if v["findings"]:
        first = v["findings"][0]
        kind = first.split(" ", 1)[0]
        return (Failure("%s/verifier/%s" % (PROPERTY, kind),
                        "bytecode verifier: %s\n(all findings: %s)\n--- source\n%s" %
                        (first, "; ".join(v["findings"][:6]), src),
                        {"source": src, "findings": v["findings"][:20]}), nontrivial, key, labels + ["finding"])
    return None, nontrivial, key, labels


def run_case(case, ctx):
    if case and case[0] == "long":
        _ok, fail = long_probe(ctx, case[1], case[2], True)
        return Outcome(key="long:%s:%d" % (case[1], case[2]), nontrivial=True, labels=["jump-boundary"], failure=fail, runs=1)
    if case and case[0] == "file":
        path = case[1]
        try:
            src = open(os.path.join(repo_path(), path), encoding="utf-8").read()
        except OSError:
            return Outcome(discarded="missing-fixture")
        what = path
        profile = "fixture"
    else:
        profile, prog = case[0], case[1]
        sel = case[2] if len(case) > 2 else 0
        if sel % 4 != 0:
            prog = insert_probe(prog, sel // 4)
        try:
            src, _ = printer.to_source(prog)
        except ValueError:
            return Outcome(discarded="unprintable")
        what = profile + " program"
    # the limit fixtures (65536 module symbols ...) take ~25 s to reject in the debug worker: a long watchdog, and a
    # wall clock expiry is inconclusive for this property, never a violation
    r = ctx.worker("dbg").run(src, mode=W.MODE_DUMP, watchdog_s=300 if profile == "fixture" else 60)
    if r.get("outcome") == "timeout":
        return Outcome(discarded="watchdog")
    fail, nontrivial, key, labels = judge(r, src, what)
    if fail is not None and profile == "fixture":
        fail.info["case"] = enc(case)
    return Outcome(key=key, nontrivial=nontrivial, labels=labels + ["profile:" + profile], failure=fail,
                   sample=short(src, 500), runs=1)


# ------------------------------------------------------------------------------------------- jump range boundary
def long_texts(n):
    """Programs whose one long block makes a particular jump / handler offset grow with n.
    -> [(name, text, stdout expected if the text is accepted)]"""
    body = "x = x + 1; " * n  # one line: the line table has its own 16 bit limit (C15 covers that one)
    items = ", ".join(["1"] * n)
    return [
        ("if-skip-then", "let x = 0;\nif x == 1 {\n%s}\nprint(x);" % body, "0\n"),
        ("if-run-then", "let x = 0;\nif x == 0 {\n%s}\nprint(x);" % body, "%d\n" % n),
        ("else-skip", "let x = 0;\nif x == 0 { x = 5; } else {\n%s}\nprint(x);" % body, "5\n"),
        ("while", "let x = 0;\nlet go = true;\nwhile go {\n%sgo = false;\n}\nprint(x);" % body, "%d\n" % n),
        ("for", "let x = 0;\nfor i in [1, 2] {\n%s}\nprint(x);" % body, "%d\n" % (2 * n)),
        ("break-over-body", "let x = 0;\nwhile true {\nif x > 0 { break; }\n%s}\nprint(x);" % body, "%d\n" % n),
        ("try-handler", "let x = 0;\ntry {\n%sraise Error('boom');\n} catch e { print('caught ' + e.message); }\nprint(x);" % body,
         "caught boom\n%d\n" % n),
        ("try-skip-catch", "let x = 0;\ntry { x = 1; } catch e {\n%s}\nprint(x);" % body, "1\n"),
        ("catch-chain", "let x = 0;\ntry { raise Error('b'); } catch e: TypeError {\n%s} catch e { print('second'); }\nprint(x);" % body,
         "second\n0\n"),
        ("fn-try-handler", "fn f() {\nlet x = 0;\ntry {\n%sraise Error('boom');\n} catch e { print('caught'); }\nreturn x;\n}\nprint(f());" % body,
         "caught\n%d\n" % n),
        ("fn-while", "fn f() {\nlet x = 0;\nlet go = true;\nwhile go {\n%sgo = false;\n}\nreturn x;\n}\nprint(f());" % body, "%d\n" % n),
        ("ternary-list", "let x = 0;\nlet y = x == 0 ? [%s].len() : 0;\nprint(y);" % items, "%d\n" % n),
        ("and-list", "let x = 0;\nlet y = x == 0 && [%s].len();\nprint(y);" % items, "%d\n" % n),
        ("or-list", "let x = nil;\nlet y = x || [%s].len();\nprint(y);" % items, "%d\n" % n),
        # the number of jump targets in one function grows with n (each jump itself stays short)
        ("many-ifs", "let x = 0;\n%s\nprint(x);" % ("if x == 1 { x = 2; } " * n), "0\n"),
        ("fn-many-loops", "fn f() {\nlet x = 0;\n%s\nreturn x;\n}\nprint(f());" % ("while x < 0 { x = 1; } " * n), "0\n"),
        # operand stack depth grows with n: every element of a literal is on the stack before the collecting
        # instruction runs, on top of whatever the enclosing expressions and locals already hold
        ("deep-list-arg", "fn count(l) { return l.len(); }\nfn f(a) {\nlet l = 1;\nreturn count([%s]) + l + a;\n}\nprint(f(1));" % items,
         "%d\n" % (n + 2)),
        ("deep-nested-list", "let z = [7, 8, [9, [%s]]];\nprint(z[2][1].len());" % items, "%d\n" % n),
        ("deep-tuple", "fn f() {\nlet a = 1;\nlet b = 2;\nlet t = (%s);\nreturn t.len() + a + b;\n}\nprint(f());" % items, "%d\n" % (n + 3)),
        ("deep-map", "fn f() {\nlet a = 1;\nlet m = {%s};\nreturn m.len() + a;\n}\nprint(f());" % ", ".join("%d: 1" % i for i in range(n)),
         "%d\n" % (n + 1)),
        ("deep-interpolation-empty-tail", "fn f(p) {\nlet a = 1;\nlet s = '%s${}';\nreturn s.len() + a;\n}\nprint(f(0));" % ("${p}" * n), "%d\n" % (n + 1)),
        ("deep-interpolation", "fn f(p) {\nlet a = 1;\nlet s = '%s';\nreturn s.len() + a;\n}\nprint(f(0));" % ("${p}" * n), "%d\n" % (n + 1)),
    ]


def long_probe(ctx, name, n, verify):
    """-> (accepted?, Failure or None)"""
    text, expect = next((t, e) for (nm, t, e) in long_texts(n) if nm == name)
    what = "jump boundary %s with n=%d" % (name, n)
    shown = "(%s; the long block is n repetitions)" % name
    r = ctx.worker("dbg").run(text, budget=40 * n + 100000, watchdog_s=120)
    f = crash_failure(PROPERTY, r, shown, what)
    if f is not None:
        f.sig = "%s/jump-range/%s" % (PROPERTY, f.sig.split("/", 1)[1])
        f.info["case"] = enc(("long", name, n))
        return False, f
    info = {"case": enc(("long", name, n))}
    if r.get("outcome") == "compile_error":
        if not (r.get("stderr") or "").strip() or r.get("stdout"):
            return False, Failure("%s/jump-range/rejected-without-diagnostic" % PROPERTY, "%s: rejected but stderr %r stdout %r" %
                                  (what, (r.get("stderr") or "")[:200], (r.get("stdout") or "")[:100]), info)
        return False, None
    if r.get("outcome") != "ok" or r.get("stdout") != expect:
        return True, Failure("%s/jump-range/accepted-but-wrong" % PROPERTY,
                             "%s: accepted, expected stdout %r, got outcome %s stdout %r stderr %r" %
                             (what, expect, r.get("outcome"), (r.get("stdout") or "")[:200], (r.get("stderr") or "")[-300:]), info)
    if verify:
        d = ctx.worker("dbg").run(text, mode=W.MODE_DUMP, watchdog_s=120)
        fnd = (d.get("verify") or {}).get("findings") or []
        if fnd:
            return True, Failure("%s/jump-range/verifier/%s" % (PROPERTY, fnd[0].split(" ", 1)[0]),
                                 "%s: accepted, bytecode verifier: %s" % (what, "; ".join(fnd[:4])), info)
    return True, None


def jump_boundaries(ctx):
    """For every construct: bisect the block length at which the compiler starts to refuse the jump, judging every
    probe (clean rejection, or accepted + right output), then verify the bytecode of the last accepted sizes."""
    out = []
    for name, _t, _e in long_texts(1):
        lo, hi = 500, 70000
        fail = None
        ok_lo, f = long_probe(ctx, name, lo, True)
        fail = fail or f
        ok_hi, f = long_probe(ctx, name, hi, False)
        fail = fail or f
        probes = 2
        if fail is None and ok_lo and not ok_hi:
            while hi - lo > 1 and fail is None:
                mid = (lo + hi) // 2
                ok, fail = long_probe(ctx, name, mid, False)
                probes += 1
                if ok:
                    lo = mid
                else:
                    hi = mid
            for n in (lo - 1, lo):
                if fail is None:
                    _ok, fail = long_probe(ctx, name, n, True)
                    probes += 1
        elif fail is None and not ok_lo:
            fail = Failure("%s/jump-range/small-block-rejected" % PROPERTY, "%s with n=%d is rejected" % (name, lo), {})
        labels = ["jump-boundary", "accepted"] + (["boundary-found"] if (fail is None and ok_lo and not ok_hi) else [])
        out.append(Outcome(key="long:%s:%d" % (name, lo), nontrivial=True, labels=labels, failure=fail,
                           sample="jump boundary %s: last accepted n=%d, first rejected n=%d (%d probes)" % (name, lo, hi, probes),
                           runs=probes))
    return out


def extra(tier, ctx):
    out = jump_boundaries(ctx)
    root = repo_path()
    files = []
    for sub in ("laythe_vm/fixture/language", "laythe_vm/fixture/std_lib"):
        files.extend(sorted(glob.glob(os.path.join(root, sub, "**", "*.lay"), recursive=True)))
    for path in files:
        rel = os.path.relpath(path, root)
        o = run_case(("file", rel), ctx)
        o.sample = None
        out.append(o)
    return out
