"""C06 Emitted bytecode respects the stack contract the unchecked VM relies on."""
import glob
import os

from hypothesis import strategies as st

from .. import worker as W
from ..build import repo_path
from ..lang import gen, printer
from ..oracle import crash_failure
from ..runner import Failure, Outcome, enc
from .common import short

PROPERTY = "C06"
LEVEL = "exploration"
VARIANTS = ("dbg",)
RULE = ("Every function of every accepted program from (a) Hypothesis programs of the core, closure, class, "
        "exception and fiber/channel profiles (known-finding hazards that only crash at run time are left on: the "
        "verifier, not execution, is the oracle), and (b) every fixture script under laythe_vm/fixture/{language,"
        "std_lib} that compiles, is dumped through the compile_dump hook and analysed by the independent bytecode "
        "verifier in the worker (own decoder and operand-width table, stack effects transcribed from the interpreter, "
        "CFG + worklist abstract interpretation of (stack depth, active handler count)): instruction boundaries and "
        "jump targets, one depth per program point, no underflow below the fixed slots, every local/box slot operand "
        "below the current depth, max depth within what push_frame/Fiber::split/Fiber::new reserve, >= one value at "
        "each Return and no active handler there, PushHandler operand == abstract depth, constant/capture/cache-slot "
        "indices in range and of the right kind. Non-trivial: a program with >= 1 function whose CFG has a branch, loop "
        "or handler; distinct by the code bytes of all its functions.")
ASSUMPTIONS = ["the verifier's stack-effect table is transcribed from laythe_vm/src/vm/ops.rs (normal, non-error path "
               "of each op); Launch is modelled for the closure case",
               "'exactly one value at each return' is checked as 'at least one value above the fixed slots and no "
               "handler active': the number of declared variables live at a Return is not recoverable from the dump",
               "fixed-index GetProp/SetProp operands cannot be range checked statically"]
GATES = {"multi_path": 0.30}
LEVEL_TEXT = ("Static analysis of every path of every generated function by an independent verifier: for the programs "
              "generated (and the fixture corpus) the stack contract is decided over all CFG paths, not only the "
              "executed one. No claim for programs the generators cannot produce.")
LEVEL_NOTE = ("Trusted base: harness/worker/src/verifier.rs (decoder, effect table, abstract interpreter), the "
              "compile_dump hook, the generators. The verifier was validated on the fixture corpus (0 findings on the "
              "repaired tree) and flags each of the defects repaired by the fix: commits when they are reverted.")
TECHNIQUE = "property-based testing (Hypothesis) with a static bytecode verifier as the in-worker oracle"


def cases(tier):
    return 4000 if tier == "quick" else 128000


def strategy(hazards):
    hz = set()  # run-time-only hazards stay on
    cfgc = gen.Cfg(p_confuse=1, hazards=hz)
    cfg3 = gen.Cfg(max_depth=3, p_confuse=0, exceptions=True, hazards=hz)
    strategies = [
        gen.program(cfgc).map(lambda p: ("core", p)),
        gen.class_program(cfg3).map(lambda p: ("class", p)),
        gen.exc_program(cfg3).map(lambda p: ("exc", p)),
        gen.exc_program(cfg3).map(lambda p: ("exc", p)),
        gen.closure_program(cfg3).map(lambda p: ("closure", p)),
    ]
    if hasattr(gen, "fiber_program"):
        strategies.append(gen.fiber_program(cfg3).map(lambda p: ("fiber", p)))
    return st.one_of(*strategies)


def judge(r, src, what):
    """-> (failure, nontrivial, key, labels)"""
    f = crash_failure(PROPERTY, r, src, "compiling " + what)
    if f is not None:
        return f, False, None, ["crash"]
    if r.get("outcome") != "ok" or "verify" not in r:
        return None, False, None, ["rejected"]
    v = r["verify"]
    funs = v.get("funs", [])
    nontrivial = any(f_.get("paths_gt1") for f_ in funs)
    key = "|".join(",".join(map(str, f_["code"])) for f_ in r["dump"]["funs"])
    labels = ["accepted"]
    if nontrivial:
        labels.append("multi_path")
    if any(f_.get("handlers") for f_ in funs):
        labels.append("has_handler")
    if v["findings"]:
        first = v["findings"][0]
        kind = first.split(" ", 1)[0]
        return (Failure("%s/verifier/%s" % (PROPERTY, kind),
                        "bytecode verifier: %s\n(all findings: %s)\n--- source\n%s" %
                        (first, "; ".join(v["findings"][:6]), src),
                        {"source": src, "findings": v["findings"][:20]}), nontrivial, key, labels + ["finding"])
    return None, nontrivial, key, labels


def run_case(case, ctx):
    if case and case[0] == "file":
        path = case[1]
        try:
            src = open(os.path.join(repo_path(), path), encoding="utf-8").read()
        except OSError:
            return Outcome(discarded="missing-fixture")
        what = path
        profile = "fixture"
    else:
        profile, prog = case
        try:
            src, _ = printer.to_source(prog)
        except ValueError:
            return Outcome(discarded="unprintable")
        what = profile + " program"
    r = ctx.worker("dbg").run(src, mode=W.MODE_DUMP)
    fail, nontrivial, key, labels = judge(r, src, what)
    if fail is not None and profile == "fixture":
        fail.info["case"] = enc(case)
    return Outcome(key=key, nontrivial=nontrivial, labels=labels + ["profile:" + profile], failure=fail,
                   sample=short(src, 500), runs=1)


def extra(tier, ctx):
    out = []
    root = repo_path()
    files = []
    for sub in ("laythe_vm/fixture/language", "laythe_vm/fixture/std_lib"):
        files.extend(sorted(glob.glob(os.path.join(root, sub, "**", "*.lay"), recursive=True)))
    for path in files:
        rel = os.path.relpath(path, root)
        o = run_case(("file", rel), ctx)
        o.sample = None
        out.append(o)
    return out
