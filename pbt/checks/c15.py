"""C15 The front end is total: any text yields a program or diagnostics, never a crash."""
import glob
import os
import re

from hypothesis import strategies as st

from .. import worker as W
from ..build import repo_path
from ..lang import gen, printer
from ..oracle import panic_sig
from ..runner import Failure, Outcome, enc
from .common import layout_ints, short

PROPERTY = "C15"
LEVEL = "exploration"
VARIANTS = ("dbg", "rel")
RULE = ("(1) Hypothesis token-level mutation of valid programs (generated programs of every profile printed in a drawn "
        "layout, and the repository's fixture scripts): delete / duplicate / swap / replace tokens, keywords in "
        "identifier position, truncation at any token or byte, unbalanced delimiters, unterminated strings and "
        "interpolations, 10^4-character identifiers / numbers / strings, raw random token soup. Each text is prefixed "
        "with print(\"MARK\"); and run with an instruction budget on the debug worker (assertions on) and, every 4th "
        "case, the release worker. Oracle: the outcome is 'compiled' (then whatever the program does at run time is "
        "C16's business) or 'compile error with >= 1 diagnostic on stderr and nothing on stdout'; a panic located in "
        "the front end, a signal, or the 30 s watchdog is a violation. (2) Boundary builders: 254/255/256 locals, "
        "parameters, arguments, captures; 255/256/257 drops; thorough only: 65535/65536 constants and jumps over "
        "65535 bytes. (3) REPL sessions [definitions, bad line, uses]: the session must survive to EOF and later "
        "lines must print what earlier definitions say. (4) a libFuzzer campaign over the same front end with the "
        "bytecode verifier as in-target oracle (harness/fuzz, see coverage.fuzz). Non-trivial: a text that is not "
        "byte-identical to its seed and is rejected with a diagnostic, or accepted with >= 1 function; distinct by "
        "text.")
ASSUMPTIONS = ["bracket nesting deeper than 64 is outside the property's bound and is not generated (3000 nested "
               "parentheses overflow the native stack in debug builds)",
               "run-time panics of accepted programs are counted (label) but judged by C16, not here"]
GATES = {"rejected": 0.20, "accepted": 0.10}
LEVEL_TEXT = ("Generated-input search (structured token mutation + coverage-guided byte fuzzing) with a totality "
              "oracle. Finds front-end panics, hangs and executed-despite-diagnostics cases among the inputs tried; "
              "cannot show absence.")
LEVEL_NOTE = ("Trusted base: worker harness (panic capture, watchdog), tokenizer used for mutation (only affects what "
              "is generated), libFuzzer.")
TECHNIQUE = "fuzzing: Hypothesis token-level mutation + libFuzzer (cargo-fuzz) with totality and verifier oracles"

KEYWORDS = ["class", "fn", "let", "if", "else", "for", "in", "while", "return", "break", "continue", "try", "catch",
            "raise", "launch", "chan", "import", "export", "from", "as", "self", "super", "static", "nil", "true",
            "false", "trait", "type"]
OPS = ["(", ")", "{", "}", "[", "]", ",", ".", ";", ":", "?", "+", "-", "*", "/", "=", "==", "!=", "<", "<=", ">", ">=",
       "&&", "||", "|", "&", "!", "<-", "->", "+=", "-=", "*=", "/=", "@x", "${", "\"", "'", "//", "\\", "$", "#", "`",
       "0", "1.5", "1e", "1e+", "x?", "x!", "\"a${", "\"${1}\"", "'${'${1}'}'", "\n", "\t", "é", "\u0000", "😀"]
TOKEN_RE = re.compile(r"""
    //[^\n]*            |   # comment
    \s+                 |   # white space
    "(?:\\.|[^"\\])*"?  |   # double quoted string (possibly unterminated)
    '(?:\\.|[^'\\])*'?  |   # single quoted
    \d+(?:\.\d+)?(?:[eE][+-]?\d+)? |
    @?[A-Za-z_][A-Za-z0-9_]*[?!]? |
    <-|->|==|!=|<=|>=|&&|\|\||\+=|-=|\*=|/=|
    .
""", re.X | re.S)


def tokenize(text):
    return [t for t in TOKEN_RE.findall(text)]


_fixture_cache = {}


def fixture_files():
    root = repo_path()
    if root not in _fixture_cache:
        files = []
        for sub in ("laythe_vm/fixture/language", "laythe_vm/fixture/std_lib"):
            files.extend(sorted(glob.glob(os.path.join(root, sub, "**", "*.lay"), recursive=True)))
        _fixture_cache[root] = [os.path.relpath(f, root) for f in files if os.path.getsize(f) < 4000]
    return _fixture_cache[root]


def cases(tier):
    return 4800 if tier == "quick" else 60000


def strategy(hazards):
    hz = set()
    cfgc = gen.Cfg(p_confuse=1, hazards=hz)
    cfg3 = gen.Cfg(max_depth=3, p_confuse=0, exceptions=True, hazards=hz)
    seeds = [
        st.tuples(st.just("gen"), gen.program(cfgc), layout_ints()),
        st.tuples(st.just("gen"), gen.class_program(cfg3), layout_ints()),
        st.tuples(st.just("gen"), gen.exc_program(cfg3), layout_ints()),
        st.tuples(st.just("gen"), gen.closure_program(cfg3), layout_ints()),
        st.tuples(st.just("file"), st.integers(0, 100000), st.just([0])),
        st.tuples(st.just("file"), st.integers(0, 100000), st.just([0])),
        st.tuples(st.just("soup"), st.just(0), st.just([0])),
    ]
    if hasattr(gen, "fiber_program"):
        seeds.append(st.tuples(st.just("gen"), gen.fiber_program(cfg3), layout_ints()))
    mutation = st.tuples(st.integers(0, 12), st.integers(0, 1 << 16), st.integers(0, 1 << 16), st.integers(0, 1 << 12))
    return st.tuples(st.one_of(*seeds), st.lists(mutation, min_size=0, max_size=4), st.integers(0, 3))


def pick(i, n):
    return (i * n) >> 16 if n > 0 else 0


def seed_text(seed):
    kind, payload, noise = seed
    if kind == "gen":
        mode = ["pretty", "compact", "tight", "noisy"][noise[0] % 4]
        return printer.to_source(payload, mode=mode, noise=noise, keep_lines=False)[0]
    if kind == "file":
        files = fixture_files()
        if not files:
            return ""
        path = files[payload % len(files)]
        return open(os.path.join(repo_path(), path), encoding="utf-8", errors="replace").read()
    return ""


# lexemes at the edge of what the scanner accepts: exponents without digits, several dots, other radixes, separators,
# overflowing and non-ascii digits, bad escapes, broken unicode escapes, interpolations that never close, stray
# characters, comments that never end
EDGE_LEXEMES = ["1e", "1e+", "2E", "5.97e-", "1.", ".5", "1..2", "1.e3", "1.5.2", "1e1e1", "1e+x", "0x1F", "0b101", "1_000",
                "1e999", "1e-999", "00012", "9" * 400, "\u0661\u0662", "1e\u0661", "\"\\q\"", "\"\\u{110000}\"",
                "\"\\u{zz}\"", "\"\\u{\"", "\"\\u\"", "'${'", "'${}'", "'${1'", "'a${'b${1}'}c'", "'${'${'${1}'}'}'",
                "'\\", "\u00e9", "a?b", "@", "$x", "#", "`", "\\", "/*", "/* never closed", "//", "\"\\",
                "\"\n\"", "'\t'", "\ufeff", "\u200b", "1;;2", "<-", "<--", "=>", "|||", "&&&", "?.", "::", "..."]


def mutate(text, muts):
    toks = tokenize(text)
    vocab = KEYWORDS + OPS
    for (kind, a, b, v) in muts:
        n = len(toks)
        i = min(pick(a, n), max(0, n - 1))
        j = min(pick(b, n), max(0, n - 1))
        word = vocab[v % len(vocab)]
        if kind == 0 and n:
            del toks[i]
        elif kind == 1 and n:
            toks.insert(i, toks[i])
        elif kind == 2 and n:
            toks[i], toks[j] = toks[j], toks[i]
        elif kind == 3 and n:
            toks[i] = word
        elif kind == 4:
            toks.insert(i, word)
        elif kind == 5 and n:
            toks = toks[:i]
        elif kind == 6 and n:
            # unbalance: remove the next closing delimiter at or after i
            for k in range(i, n):
                if toks[k] in (")", "}", "]"):
                    del toks[k]
                    break
        elif kind == 7 and n:
            # unterminate the next string at or after i
            for k in range(i, n):
                if len(toks[k]) >= 2 and toks[k][0] in "\"'" and toks[k][-1] == toks[k][0]:
                    toks[k] = toks[k][:-1]
                    break
        elif kind == 8 and n:
            # a very long token
            long_ = ["x" * 10000, "9" * 10000, "\"" + "s" * 10000 + "\"", "1." + "0" * 10000, "@" + "y" * 10000][b % 5]
            toks[i] = long_
        elif kind == 9:
            # byte level truncation (may split a multi-byte character: decoded with replacement)
            data = "".join(toks).encode("utf-8")
            cut = pick(a, len(data))
            toks = [data[:cut].decode("utf-8", "replace")]
        elif kind == 10:
            # token soup
            toks = [vocab[(a + k * (b | 1)) % len(vocab)] + " " for k in range(1 + (v % 40))]
        elif kind == 12 and n:
            # a literal (or, failing that, any token) replaced by an edge lexeme
            lex = EDGE_LEXEMES[v % len(EDGE_LEXEMES)]
            for k in list(range(i, n)) + [i]:
                if re.match(r"^[0-9\"']", toks[k]):
                    i = k
                    break
            toks[i] = lex
        elif kind == 11 and n:
            # identifier replaced by a keyword
            for k in range(i, n):
                if re.match(r"^[A-Za-z_]", toks[k]) and toks[k] not in KEYWORDS:
                    toks[k] = KEYWORDS[v % len(KEYWORDS)]
                    break
    return "".join(toks)


def nesting(text):
    depth = mx = 0
    for ch in text:
        if ch in "([{":
            depth += 1
            mx = max(mx, depth)
        elif ch in ")]}":
            depth = max(0, depth - 1)
    return mx


FRONT_END = ("laythe_vm/src/compiler", "laythe_vm/src/source", "laythe_vm/src/byte_code", "laythe_vm/src/chunk_builder",
             "laythe_vm/src/vm/source_loader", "codespan")


def judge(r, text, what):
    """Totality oracle. Returns (failure or None, labels)."""
    o = r.get("outcome")
    labels = []
    if o == "panic":
        loc = r.get("panic", "")
        if any(p in loc for p in FRONT_END) or r.get("instr", 0) == 0:
            return Failure("%s/panic/%s" % (PROPERTY, panic_sig(r)), "%s: front end panicked: %s\n--- text\n%s" %
                           (what, r.get("panic"), text[:3000]), {"text": text, "panic": r.get("panic")}), ["panic"]
        return None, ["accepted", "runtime-crash-ignored"]
    if o == "signal":
        return Failure("%s/signal/%s" % (PROPERTY, r.get("code")), "%s: worker died with %s\n--- text\n%s" %
                       (what, r.get("code"), text[:3000]), {"text": text}), ["signal"]
    if o == "timeout":
        return Failure("%s/hang" % PROPERTY, "%s: no answer within the watchdog\n--- text\n%s" % (what, text[:3000]),
                       {"text": text}), ["hang"]
    if o == "compile_error":
        labels.append("rejected")
        if not (r.get("stderr") or "").strip():
            return Failure("%s/no-diagnostic" % PROPERTY, "%s: compile error status without a diagnostic\n--- text\n%s" %
                           (what, text[:3000]), {"text": text}), labels
        if r.get("stdout"):
            return Failure("%s/executed-despite-diagnostics" % PROPERTY,
                           "%s: diagnostics were reported but the program printed %r\n--- text\n%s" %
                           (what, r.get("stdout")[:200], text[:3000]), {"text": text}), labels
        if r.get("code") != 1:
            return Failure("%s/compile-error-status" % PROPERTY, "%s: status %s" % (what, r.get("code")),
                           {"text": text}), labels
        return None, labels
    labels.append("accepted")
    if o == "budget":
        labels.append("ran-out-of-budget")
    return None, labels


def run_case(case, ctx):
    if case and case[0] == "text":
        text = case[1]
        seed = None
        sel = 0
    else:
        seedc, muts, sel = case
        try:
            seed = seed_text(seedc)
        except ValueError:
            return Outcome(discarded="unprintable")
        text = mutate(seed, muts)
    if nesting(text) > 64:
        return Outcome(excluded="nesting>64")
    full = 'print("MARK");\n' + text
    runs = 0
    fail = None
    labels = []
    variants = ["dbg"] + (["rel"] if sel == 0 else [])
    for v in variants:
        r = ctx.worker(v).run(full, budget=200000)
        runs += 1
        fail, labels = judge(r, full, v)
        if fail is not None:
            break
    if fail is None and (sel == 1 or seed is None) and len(text) < 20000:
        # metamorphic: white space in front of a text changes nothing. The text itself (nothing before its first
        # character) and the same text after one blank are both accepted or both rejected, and print the same
        ra = ctx.worker("dbg").run(text, budget=200000)
        rb = ctx.worker("dbg").run(" " + text, budget=200000)
        runs += 2
        fail, _l = judge(ra, text, "dbg, text at the very start of the file")
        if fail is None:
            ca, cb = ra.get("outcome") == "compile_error", rb.get("outcome") == "compile_error"
            # (functions and natives print their address: not part of what the text means)
            sa, sb = (re.sub(r"0x[0-9a-f]+", "0xADDR", x.get("stdout") or "") for x in (ra, rb))
            # (texts grown from fixture files may read the clock, the environment or random numbers: only their
            # verdict is compared)
            same_out = sa == sb or (seed is not None and case[0][0] != "gen")
            if ca != cb or (not ca and ra.get("outcome") == "ok" and rb.get("outcome") == "ok" and not same_out):
                fail = Failure("%s/leading-blank-changes-the-text" % PROPERTY,
                               "the text alone: %s, stdout %r; after one blank: %s, stdout %r\n--- text\n%s" %
                               (ra.get("outcome"), (ra.get("stdout") or "")[:200], rb.get("outcome"), (rb.get("stdout") or "")[:200], text[:3000]),
                               {"text": text})
        labels = labels + ["leading-blank-pair"]
    if fail is None and seed is None:
        # replayed / boundary / fuzz texts also go through the verifier, like the fuzz target does
        r = ctx.worker("dbg").run(text, mode=W.MODE_DUMP)
        runs += 1
        fail, _l = judge(r, text, "dbg compile only")
        if fail is None and r.get("verify", {}).get("findings"):
            first = r["verify"]["findings"][0]
            fail = Failure("%s/verifier/%s" % (PROPERTY, first.split(" ", 1)[0]),
                           "accepted text fails the bytecode verifier: %s\n--- text\n%s" % (first, text[:3000]),
                           {"text": text})
    nontrivial = (text != seed) and ("rejected" in labels or "accepted" in labels)
    return Outcome(key=text, nontrivial=nontrivial, labels=labels, failure=fail, sample=short(text, 300), runs=runs)


# ------------------------------------------------------------------------------------------- boundary builders
def boundary_texts(tier):
    out = []
    for n in (254, 255, 256):
        out.append(("locals-%d" % n, "fn f() {\n" + "".join("let a%d = %d;\n" % (i, i) for i in range(n)) + "return a0;\n}\nprint(f());"))
        out.append(("locals-plus-drop-%d" % n, "fn f() {\nif true {\n" + "".join("let a%d = %d;\n" % (i, i) for i in range(n)) + "1;\n}\nreturn 7;\n}\nprint(f());"))
        out.append(("params-%d" % n, "fn f(" + ", ".join("p%d" % i for i in range(n)) + ") { return p0; }\nprint(f(" + ", ".join("1" for _ in range(n)) + "));"))
        out.append(("args-%d" % n, "fn f() { return 1; }\ntry { f(" + ", ".join("1" for _ in range(n)) + "); } catch e { print(\"arity\"); }"))
        out.append(("captures-%d" % n, "fn f() {\n" + "".join("let a%d = %d;\n" % (i, i) for i in range(min(n, 250))) +
                    "let g = || " + " + ".join("a%d" % i for i in range(min(n, 250))) + ";\nreturn g();\n}\nprint(f());"))
        out.append(("list-items-%d" % n, "print([" + ", ".join("1" for _ in range(n)) + "].len());"))
        out.append(("interp-segments-%d" % n, "print(\"" + "".join("${%d}" % (i % 10) for i in range(n)) + "\".len());"))
        out.append(("module-lets-%d" % n, "".join("let m%d = %d;\n" % (i, i) for i in range(n)) + "print(m0);"))
        out.append(("methods-%d" % n, "class K {\n" + "".join("m%d() { %d }\n" % (i, i) for i in range(n)) + "}\nprint(K().m0());"))
        out.append(("catch-chain-%d" % n, "try { raise Error(\"x\"); }" + "".join(" catch e%d: TypeError {}" % i for i in range(min(n, 60))) + " catch e { print(\"ok\"); }"))
    for n in (256, 257, 258, 300):
        # past the limit of locals the compiler reports the error and goes on: every later use of a late local (read,
        # write, capture, loop variable, compound assignment) has to survive that
        decl = "".join("let a%d = %d;\n" % (i, i) for i in range(n))
        last = "a%d" % (n - 1)
        out.append(("locals-%d-read-late" % n, "fn f() {\n" + decl + "return %s;\n}\nprint(f());" % last))
        out.append(("locals-%d-write-late" % n, "fn f() {\n" + decl + "%s = 1;\n%s += 2;\nreturn a0;\n}\nprint(f());" % (last, last)))
        out.append(("locals-%d-capture-late" % n, "fn f() {\n" + decl + "let g = || %s;\nreturn g();\n}\nprint(f());" % last))
        out.append(("locals-%d-for-late" % n, "fn f() {\n" + decl + "for x in [1, 2] { print(x + %s); }\nreturn a0;\n}\nprint(f());" % last))
        out.append(("locals-%d-try-late" % n, "fn f() {\n" + decl + "try { raise Error(\"x\"); } catch e { print(e.message, %s); }\nreturn a0;\n}\nprint(f());" % last))
        out.append(("locals-%d-nested-fn-late" % n, "fn f() {\n" + decl + "fn g() { return %s + a0; }\nreturn g();\n}\nprint(f());" % last))
    for n in (65534, 65535, 65536, 65537, 70000):
        # the line table holds 16 bit line numbers
        out.append(("lines-%d" % n, "\n" * (n - 1) + "print(1);\nprint(2);"))
    for k, lex in enumerate(EDGE_LEXEMES):
        out.append(("edge-lexeme-%d-let" % k, "let x = %s;\nprint(1);" % lex))
        out.append(("edge-lexeme-%d-arg" % k, "print(%s, 2);" % lex))
        out.append(("edge-lexeme-%d-eof" % k, "print(1);\n%s" % lex))
    # a catch variable named like its class filter: the class is looked up before the variable exists
    out.append(("catch-var-named-like-undeclared-class", "try { raise Error(\"x\"); } catch Foo: Foo { }\nprint(1);"))
    out.append(("catch-var-named-like-class", "class Foo : Error {}\ntry { raise Foo(\"x\"); } catch Foo: Foo { print(Foo.message); }"))
    out.append(("catch-var-named-like-class-in-fn", "fn f() { try { raise Error(\"x\"); } catch Error: Error { print(Error.message); } }\nf();"))
    out.append(("for-var-named-like-iterable", "fn f() { let x = [1, 2]; for x in (|| x)() { print(x); } }\nf();"))
    out.append(("let-named-like-its-initializer", "let a = 1;\nfn f() { let a = a; }"))
    out.append(("lambda-continue", "for i in [1] { let f = || { continue; }; }"))
    out.append(("lambda-break", "while true { let f = || { break; }; break; }"))
    # first characters of a file (nothing has been consumed when they are scanned)
    for k, head in enumerate(["/x/ not a program (((", "/ /", "//", "/", "x//y", "/*", "1//2", "\"//\"", "/x//", "é//", "/é/ ((", "\n/x/ (("]):
        out.append(("file-start-%d" % k, head + "\nprint(\"second line\");"))
    # interpolations whose segment count is at the operand limit, with and without an empty trailing segment
    for n in (32765, 32766, 32767, 32768):
        out.append(("interp-pairs-%d" % n, "let a = 1;\nlet s = \"" + "${a}" * n + "\";\nprint(s.len());"))
        out.append(("interp-pairs-%d-empty-tail" % n, "let a = 1;\nlet s = \"" + "${a}" * n + "${}\";\nprint(s.len());"))
    out.append(("nest-64", "print(" + "(" * 60 + "1" + ")" * 60 + ");"))
    out.append(("empty", ""))
    out.append(("only-comment", "// nothing"))
    out.append(("bom", "﻿print(1);"))
    out.append(("crlf", "print(1);\r\nprint(2);\r\n"))
    out.append(("nul", "print(1);\0print(2);"))
    if tier == "thorough":
        for n in (65535, 65536, 65537):
            out.append(("constants-%d" % n, "let l = [" + ", ".join("%d.5" % i for i in range(n // 8)) + "];\n" * 1 +
                        "".join("let c%d = [%s];\n" % (k, ", ".join("%d.25" % (k * 10000 + i) for i in range(n // 8))) for k in range(8)) + "print(1);"))
        body = "".join("x = x + %d;\n" % i for i in range(9000))
        out.append(("long-jump", "let x = 0;\nif x == 0 {\n" + body + "}\nprint(x);"))
        out.append(("long-loop", "let x = 0;\nwhile x < 1 {\n" + body + "}\nprint(x);"))
        out.append(("long-fn-jump", "fn f() { let x = 0;\nif x == 0 {\n" + body + "}\nreturn x; }\nprint(f());"))
    return out


def repl_sessions():
    """[(name, lines, expected printed values after stripping prompts)]"""
    s = []
    s.append(("syntax-error", ["let x = 5;\n", "print(x;\n", "print(x);\n", "let y = x + 1;\n", "print(y);\n"], ["5", "6"]))
    s.append(("undeclared", ["fn f() { return 7; }\n", "print(zzz);\n", "print(f());\n"], ["7"]))
    s.append(("runtime-error", ["let a = [1, 2];\n", "a[9];\n", "print(a.len());\n", "raise Error(\"x\");\n", "print(a[0]);\n"], ["2", "1"]))
    s.append(("unterminated", ["let s = \"abc\";\n", "print(\"oops);\n", "print(s);\n"], ["abc"]))
    s.append(("bad-class", ["class A { init() { self.v = 3; } }\n", "class B : { }\n", "let o = A();\n", "print(1 + 2);\n"], ["3"]))
    s.append(("garbage", ["let k = 1;\n", "}{)(][ ;;; @ # `\n", "print(k);\n", "\0\n", "print(k + k);\n"], ["1", "2"]))
    return s


FUZZ = {}


def fuzz_campaign(tier, ctx):
    """libFuzzer campaign bounded by -runs; every artifact is replayed on the worker and becomes a case."""
    from .. import fuzzing
    out = []
    try:
        fuzzing.build()
    except Exception as e:  # build problems are infrastructure, not violations
        FUZZ["error"] = str(e)[-800:]
        return out
    runs = 200000 if tier == "quick" else 3000000
    r = fuzzing.run(runs, ctx.seed, max_total_time=120 if tier == "quick" else 900)
    FUZZ.update({"engine": "libFuzzer via cargo-fuzz, target harness/fuzz/fuzz_compile.rs", "executions": r["execs"],
                 "coverage_edges": r["cov"], "wall_s": round(r["wall_s"], 1), "jobs": r["jobs"],
                 "seed_corpus_files": r["seed_files"], "final_corpus_files": r["corpus_size"],
                 "artifacts": [c["file"] for c in r["crashes"]],
                 "oracles": "no panic / no hang in scanner+parser+resolver+compiler+peephole+encoder; accepted "
                            "inputs must pass the bytecode verifier (C06 oracle inside the target)"})
    for c in r["crashes"]:
        text = c["data"].decode("utf-8", "replace")
        if c["kind"] == "oom":
            continue
        o = run_case(("text", text), ctx)
        if o.failure is None and c["kind"] in ("crash",):
            o.failure = Failure("%s/fuzz/unreproduced-%s" % (PROPERTY, c["kind"]),
                                "libFuzzer artifact %s did not reproduce on the worker\n--- text\n%s" %
                                (c["file"], text[:2000]), {"text": text})
        if o.failure is not None:
            o.failure.info["case"] = enc(("text", text))
        o.labels = list(o.labels) + ["fuzz-artifact"]
        out.append(o)
    return out


def coverage_extra(tier):
    return {"fuzz": dict(FUZZ)}


def extra(tier, ctx):
    out = fuzz_campaign(tier, ctx)
    for name, text in boundary_texts(tier):
        o = run_case(("text", text), ctx)
        o.labels = list(o.labels) + ["boundary"]
        o.nontrivial = True
        o.sample = None
        if o.failure is not None:
            o.failure.info["case"] = enc(("text", text))
            o.failure.detail = "boundary case %s\n%s" % (name, o.failure.detail[:1500])
        out.append(o)
    for name, lines, expect in repl_sessions():
        for v in ("dbg", "rel"):
            r = ctx.worker(v).call(mode=W.MODE_REPL, lines=lines, main="/v/repl", budget=200000)
            fail = None
            got = [l for l in (r.get("stdout") or "").replace("laythe:> ", "").split("\n") if l != ""]
            if r.get("outcome") != "ok" or r.get("code") != 0:
                fail = Failure("%s/repl/session-died/%s" % (PROPERTY, panic_sig(r)),
                               "repl session %s on %s did not reach EOF normally: %s %s %s\nlines: %r" %
                               (name, v, r.get("outcome"), r.get("code"), r.get("panic"), lines),
                               {"lines": lines, "case": enc(("repl", name))})
            elif got != expect:
                fail = Failure("%s/repl/definitions-lost" % PROPERTY,
                               "repl session %s on %s printed %r, expected %r\nlines: %r\nstderr: %s" %
                               (name, v, got, expect, lines, (r.get("stderr") or "")[-400:]),
                               {"lines": lines, "case": enc(("repl", name))})
            out.append(Outcome(key="repl:" + name + v, nontrivial=True, labels=["repl"], failure=fail,
                               sample="repl session: " + " | ".join(l.strip() for l in lines), runs=1))
    return out
