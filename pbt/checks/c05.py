"""C05 Garbage collection is invisible: no live object is ever freed."""
from hypothesis import strategies as st

from .. import worker as W
from ..oracle import same_behaviour
from ..runner import Outcome
from . import progs
from .common import short

PROPERTY = "C05"
LEVEL = "exploration"
VARIANTS = ("dbg", "rel", "nan-dbg", "nan-rel")
RULE = ("(program, schedule) pairs. Programs: Hypothesis programs of every generator profile and the repository's "
        "deterministic fixture scripts. Schedules are drawn from the collection-trigger hook's alphabet: collect at "
        "every allocation, every k-th (k 2..50), seeded random with drawn probability, explicit allocation ordinals, "
        "byte threshold, each with or without force-full (every collection sweeps both generations). Each pair runs "
        "under 'never collect' (baseline) and under the schedule on one of the four builds {debug,release} x {enum,"
        "nan-boxed} (drawn); outcome, stdout and error class must be identical, and no poisoned (freed) object may be "
        "touched (header check hook + quarantining allocator turn that into a panic/signal). A failing non-explicit "
        "schedule is restated as the list of allocation ordinals at which it collected and that list is shrunk together "
        "with the program. Non-trivial: the schedule triggered >= 1 collection that freed >= 1 object while the program "
        "still had >= 1 later allocation (hook counters); distinct by (program text, schedule).")
ASSUMPTIONS = ["'never collect' is a legitimate baseline (the property's own wording)",
               "fixture scripts using the clock, randomness, the real file system, stdin or sibling imports are skipped",
               "programs whose two runs print an address (0x...) are skipped as non deterministic"]
GATES = {"freed-then-allocated": 0.50}
LEVEL_TEXT = ("Differential search over generated (program, collection schedule) pairs with the harness owning the "
              "schedule. Finds missing roots / premature frees on the pairs tried; says nothing about schedules or "
              "programs not generated.")
LEVEL_NOTE = ("Trusted base: gc schedule + header check hooks, poisoning/quarantining allocator, worker harness.")
TECHNIQUE = "property-based testing (Hypothesis): differential oracle over generated programs x gc schedules"


def cases(tier):
    return 2400 if tier == "quick" else 60000


def schedule_strategy():
    return st.one_of(
        st.just(("every_alloc",)),
        st.just(("every_alloc",)),
        st.integers(2, 50).map(lambda k: ("every_kth", k)),
        st.tuples(st.integers(0, 1 << 30), st.integers(1, 400)).map(lambda t: ("seeded", t[0], t[1])),
        st.lists(st.integers(400, 4000), min_size=1, max_size=12).map(lambda l: ("at_indices", sorted(set(l)))),
        st.integers(64, 20000).map(lambda n: ("bytes", n)),
    )


def strategy(hazards):
    return st.tuples(progs.program_cases(hazards), schedule_strategy(), st.booleans(), st.integers(0, 3))


def to_schedule(s):
    if s[0] == "at_indices":
        return W.at_indices(s[1])
    return tuple(s)


def run_case(case, ctx):
    pc, sched, force_full, vsel = case
    src, files, label = progs.source_of(pc)
    if src is None:
        return Outcome(discarded=label)
    variant = VARIANTS[vsel % 4]
    w = ctx.worker(variant)
    base = w.run(src, schedule=W.NEVER)
    if base.get("outcome") == "compile_error":
        return Outcome(discarded="compile-error")
    if base.get("outcome") == "budget":
        return Outcome(discarded="baseline-budget")
    # collecting at every allocation is quadratic: long running programs get a sparser schedule instead
    if base.get("gc", {}).get("allocations", 0) > 6000 and sched[0] == "every_alloc":
        sched = ("every_kth", 97)
    r = w.run(src, schedule=to_schedule(sched), force_full=force_full, watchdog_s=60)
    if r.get("outcome") == "timeout":
        # a wall clock stall is inconclusive, never a violation of this property
        return Outcome(discarded="watchdog")
    gc = r.get("gc", {})
    nontrivial = gc.get("freeing_collections", 0) >= 1 and gc.get("last_freeing_ordinal", 0) < gc.get("allocations", 0)
    labels = [label, "build:" + variant, "sched:" + sched[0]]
    if force_full:
        labels.append("force_full")
    if nontrivial:
        labels.append("freed-then-allocated")
    fail = same_behaviour(PROPERTY, base, r, src, "never collect", "schedule %s%s on %s" %
                          (sched, " force_full" if force_full else "", variant), "gc")
    if fail is not None:
        fail.info["gc"] = {"ordinals": gc.get("ordinals", [])[:4096], "collections": gc.get("collections"),
                           "allocations": gc.get("allocations")}
    return Outcome(key=src + repr(sched) + str(force_full), nontrivial=nontrivial, labels=labels, failure=fail,
                   sample={"schedule": list(sched), "force_full": force_full, "build": variant, "program": short(src, 400)},
                   runs=2)


def reexpress(case, outcome):
    pc, sched, force_full, vsel = case
    if sched[0] == "at_indices":
        return None
    ords = outcome.failure.info.get("gc", {}).get("ordinals") or []
    if not ords:
        return None
    return (pc, ("at_indices", list(ords)), force_full, vsel)


# ------------------------------------------------------------------------------------------- natives that call back
def callback_texts():
    """Natives that run user code (an element's or argument's str(), a comparator, a callback) while they hold values
    they made themselves: every such value has to survive a collection that starts inside the callback.
    -> [(name, text)]"""
    pre = ("class S {\n  init(t) { self.t = t; }\n  str() {\n    let junk = [];\n    for i in 12.times() { junk.push('j${i}' + self.t); }\n"
           "    return 's-' + self.t;\n  }\n}\n"
           "fn show(f) { try { print(f()); } catch e { print(e.message); } }\n")
    shapes = {
        "assertEq-num-obj": "show(|| assertEq(12345.678, S('a')));",
        "assertEq-obj-obj": "show(|| assertEq(S('a'), S('b')));",
        "assertEq-str-obj": "show(|| assertEq('lit' + 'eral', S('b')));",
        "assertNe-obj-obj": "let o = S('a');\nshow(|| assertNe(o, o));",
        "assertNe-num": "show(|| assertNe(1.5, 1.5));",
        "print-many": "print(1.25, S('a'), 2.5, S('b'), [S('c')], 3.75);",
        "interpolation": "print('${1.25} ${S('a')} ${2.5} ${S('b')} ${[S('c'), 4.5]} ${(S('d'), 5.5)} end');",
        "list-str": "print([1.5, S('a'), 2.5, S('b'), [S('c')], { 'k': S('d') }].str());",
        "tuple-str": "print((1.5, S('a'), 2.5, S('b')).str());",
        "map-str": "let m = { 1.5: S('a') };\nprint(m.str());",
        "map-key-str": "let m = {};\nm[S('k')] = 7.5;\nprint(m.str().len());",
        "concat-of-strs": "print(S('a').str() + 1.5.str() + S('b').str() + 2.5.str());",
        "error-message-from-str": "show(|| { raise Error(S('a').str() + 1.5.str()); });",
        "sort-with-allocating-comparator": "print([3.5, 1.5, 2.5].sort(|a, b| { let j = [a.str(), b.str()]; a - b }));",
        "reduce-building-strings": "print([1.5, 2.5, 3.5].iter().reduce('', |a, x| a + x.str() + S('r').str()));",
        "split-map-collect": "print('a,b,c'.split(',').map(|p| p + S('x').str()).into(List.collect));",
    }
    return [(n, pre + t + "\nprint('end');\n") for n, t in sorted(shapes.items())]


def extra(tier, ctx):
    out = []
    for name, text in callback_texts():
        for vsel, force_full in ((0, False), (2, True)):
            o = run_case((("text", "callback-shape", text), ("every_alloc",), force_full, vsel), ctx)
            o.nontrivial = True
            o.labels = list(o.labels) + ["callback-shape"]
            o.sample = "callback shape " + name
            out.append(o)
    return out
