"""C16 No accepted program can crash the runtime."""
import glob
import os
import re

from hypothesis import strategies as st

from .. import worker as W
from ..build import repo_path
from ..oracle import panic_sig
from ..runner import Failure, Outcome, enc
from .common import short

PROPERTY = "C16"
LEVEL = "exploration"
VARIANTS = ("dbg", "rel")
RULE = ("(1) Native matrix: every builtin function and method, scraped at run time from NativeMetaBuilder::(fun|method) "
        "in laythe_lib/src (new natives are picked up automatically), applied to a sample receiver of its class and to "
        "argument vectors of length 0..3 over 27 argument kinds (nil, bool, ints, fraction, -1, huge, NaN, strings, "
        "list, map, tuple, lambdas of arity 0/1/2, a lambda that raises, class, instance, instance with a user str(), "
        "channel, iterator, bound method, native, error); pairwise-exhaustive in extra (every native x every kind in "
        "every position, other positions filled from the declared parameter kinds), random vectors from Hypothesis. "
        "(2) Recursion: unbounded self recursion through fn / closure / method / init / each-callback / map..list / "
        "sort comparator / str() called by print, caught and uncaught. (3) Errors raised inside catch blocks, inside "
        "str() called by print / interpolation / list printing, inside a user iterator's next; exit(n) from nested "
        "positions including native callbacks. (4) User classes extending builtin classes. Each call runs in its own "
        "program inside a module level try, on the debug and release workers. Oracle: the outcome is a normal exit, "
        "exit(n), a reported deadlock or a language level error with traceback; a host panic, signal, allocator "
        "poison/layout report or exhausted instruction budget is a violation. Non-trivial: a distinct (native, argument "
        "kind vector) that got past the signature check (the response is not the signature RuntimeError), or a "
        "distinct recursion / nested error shape.")
ASSUMPTIONS = ["natives that read the real clock, randomness or block on stdin are called too (stdin is empty, the "
               "clock is frozen by the harness)", "per call-site signatures: native name + panic location"]
GATES = {}
LEVEL_TEXT = ("Pairwise-exhaustive enumeration of the native x argument-kind matrix plus random vectors and fixed "
              "recursion / nested-error shapes with a crash oracle on two builds; says nothing about argument values "
              "outside the sampled kinds.")
LEVEL_NOTE = "Trusted base: worker harness (panic capture, process death detection, allocator), native scraper."
TECHNIQUE = "fuzzing / property-based testing: enumerated native x argument-kind matrix + Hypothesis vectors, crash oracle"

PRELUDE = """class K { init() { self.a = 1; } m() { self.a } }
class S { str() { "S!" } }
class BadStr { str() { 5 } }
fn named(x) { x }
let ch = chan(2);
"""

ARG_KINDS = {
    "nil": "nil", "true": "true", "false": "false", "zero": "0", "one": "1", "two": "2", "neg": "-1", "frac": "0.5",
    "huge": "1000000000000000000", "nan": "(0/0)", "inf": "(1/0)", "empty_str": "\"\"", "str": "\"ab\"", "uni": "\"héλ\"",
    "list": "[1, 2]", "empty_list": "[]", "map": "{1: 2}", "tuple": "(1, 2)", "lambda0": "|| 1", "lambda1": "|x| x",
    "lambda2": "|a, b| a", "lambda_raise": "|x| { raise Error(\"cb\"); }", "class": "K", "instance": "K()", "strinst": "S()",
    "chan": "ch", "iter": "[1, 2].iter()", "bound": "[1].push", "native": "print", "error": "Error(\"e\")", "badstr": "BadStr()",
}
KIND_NAMES = sorted(ARG_KINDS)
DEFAULT_FOR = {"Number": "one", "String": "str", "Callable": "lambda1", "Object": "list", "Bool": "true"}

RECEIVERS = {
    "list": ["[3, 1, 2]", "[]"], "map": ["{1: 2, \"a\": nil}", "{}"], "tuple": ["(1, 2, 3)", "()"],
    "string": ["\"héllo wörld\"", "\"\""], "number": ["5", "2.5", "-1"], "bool": ["true"], "nil": ["nil"],
    "iter": ["[1, 2, 3].iter()", "3.times()"], "class": ["K"], "closure": ["|x| x"], "fun": ["named"], "method": ["[1].push"],
    "native": ["print"], "channel": ["ch", "chan()"], "object": ["K()"], "error": ["Error(\"m\")"],
}
STATIC_RECEIVER = {"list": "List", "tuple": "Tuple", "number": "Number"}
IMPORTS = {
    "math/utils": ("import std.math:{%s};", None),
    "io/stdio/stdout": ("import std.io.stdio:{stdout};", "stdout"),
    "io/stdio/stderr": ("import std.io.stdio:{stderr};", "stderr"),
    "io/stdio/stdin": ("import std.io.stdio:{stdin};", "stdin"),
    "io/fs/utils": ("import std.io.fs:{%s};", None),
    "env/utils": ("import std.env:{%s};", None),
    "regexp/class": ("import std.regexp:{RegExp};", "RegExp(\"a+\")"),
    "global/time/clock": ("", None),
}

_natives = {}


SIG_CYCLIC = "C16/cyclic-import/late-export-through-early-module-instance/index-out-of-bounds"


def natives():
    """[(file key, kind fun|method, name, arity kind, lo, hi, [param kinds])] scraped from the repository."""
    root = repo_path()
    if root in _natives:
        return _natives[root]
    out = []
    base = os.path.join(root, "laythe_lib", "src")
    for path in sorted(glob.glob(os.path.join(base, "**", "*.rs"), recursive=True)):
        text = open(path, encoding="utf-8").read()
        text = text.split("#[cfg(test)]")[0]
        key = os.path.relpath(path, base)[:-3]
        for m in re.finditer(r"NativeMetaBuilder::(fun|method)\(\s*([A-Z_]+|\"[^\"]+\")\s*,\s*Arity::(Fixed|Variadic|Default)\(([^)]*)\)\s*\)(.*?);",
                             text, re.S):
            kind, name, ak, aargs, rest = m.groups()
            if name.startswith('"'):
                name = name.strip('"')
            else:
                name = {"INDEX_GET": "[]", "INDEX_SET": "[]="}.get(name, name)
            nums = [int(x) for x in re.findall(r"\d+", aargs)]
            lo = nums[0] if nums else 0
            hi = lo if ak == "Fixed" else (nums[1] if ak == "Default" and len(nums) > 1 else lo + 2)
            params = re.findall(r"ParameterKind::(\w+)", rest)
            out.append((key, kind, name, ak, lo, hi, params))
    _natives[root] = out
    return out


def call_text(entry, recv_i, arg_kinds):
    key, kind, name, ak, lo, hi, params = entry
    args = ", ".join(ARG_KINDS[k] for k in arg_kinds)
    cls = key.split("/")[-1]
    pre = ""
    if key in IMPORTS:
        imp, obj = IMPORTS[key]
        if obj is None:
            pre = (imp % name) if "%s" in imp else imp
            return pre, "%s(%s)" % (name, args)
        pre = imp
        return pre, "%s.%s(%s)" % (obj, name, args) if name != "init" else "RegExp(%s)" % args
    if kind == "fun":
        if key.startswith("global/primitives/") and cls in STATIC_RECEIVER:
            return pre, "%s.%s(%s)" % (STATIC_RECEIVER[cls], name, args)
        return pre, "%s(%s)" % (name, args)
    recvs = RECEIVERS.get(cls)
    if recvs is None:
        return None, None
    recv = recvs[recv_i % len(recvs)]
    if name == "[]":
        return pre, "(%s)[%s]" % (recv, args) if len(arg_kinds) == 1 else "(%s).%s" % (recv, "len") + "()"
    if name == "[]=":
        if len(arg_kinds) == 2:
            return pre, "(%s)[%s] = %s" % (recv, ARG_KINDS[arg_kinds[1]], ARG_KINDS[arg_kinds[0]])
        return None, None
    if name == "init" and cls == "error":
        return pre, "Error(%s)" % args
    return pre, "(%s).%s(%s)" % (recv, name, args)


def program_for(entry, recv_i, arg_kinds):
    pre, call = call_text(entry, recv_i, arg_kinds)
    if call is None:
        return None
    return "%s%s\ntry {\n  let r = %s;\n  print(\"returned\");\n} catch e {\n  print(e.cls().name());\n}\nprint(\"end\");\n" % (PRELUDE, pre, call)


SIG_ERR = re.compile(r"required a|expected \d+ argument|expected at (least|most)")


def judge(r, src, what, tag):
    o = r.get("outcome")
    if o in ("panic", "signal", "budget", "timeout") or r.get("drop_panicked") or r.get("alloc", {}).get("bad_frees"):
        if o == "budget":
            sig = "%s/hang/%s" % (PROPERTY, tag)
        elif o == "timeout":
            return None, "watchdog"
        else:
            sig = "%s/crash/%s/%s" % (PROPERTY, tag, panic_sig(r) if o in ("panic", "signal") else "drop-or-bad-free")
        return Failure(sig, "%s: %s %s\n--- source\n%s" % (what, o, r.get("panic") or r.get("drop_panic"), src), {"source": src}), "crash"
    if r.get("alloc", {}).get("mismatches"):
        return Failure("%s/layout-mismatch/%s" % (PROPERTY, tag), "%s: dealloc layout mismatch %s\n--- source\n%s" %
                       (what, r["alloc"]["samples"], src), {"source": src}), "crash"
    return None, o


def run_source(src, ctx, tag, what, files=None):
    fail = None
    past_sig = False
    runs = 0
    for v in ("dbg", "rel"):
        try:
            r = ctx.worker(v).run(src, budget=3_000_000, watchdog_s=40, **({"files": files} if files else {}))
        except W.Inconclusive:
            # the worker ran into its address space cap: neither a crash nor a clean outcome
            return Outcome(discarded="memory-cap", runs=runs + 1)
        runs += 1
        fail, o = judge(r, src, "%s on %s" % (what, v), tag)
        if o == "watchdog":
            return Outcome(discarded="watchdog", runs=runs)
        if fail is not None:
            break
        out = r.get("stdout") or ""
        if "returned" in out or ("RuntimeError" not in out):
            past_sig = True
    return Outcome(key=src, nontrivial=past_sig, labels=["past-signature"] if past_sig else ["signature-error"],
                   failure=fail, sample=None, runs=runs)


def cases(tier):
    return 3200 if tier == "quick" else 160000


def strategy(hazards):
    return st.tuples(st.just("native"), st.integers(0, 100000), st.integers(0, 3),
                     st.lists(st.integers(0, len(KIND_NAMES) - 1), min_size=0, max_size=3))


def run_case(case, ctx):
    if case[0] == "srcfiles":
        o = run_source(case[2], ctx, case[1], case[1], files=dict(case[3]))
        o.sample = short(case[2], 300)
        if o.failure is not None:
            o.failure.info["case"] = enc(case)
            if "cyclic-import" in case[1] and "index out of bounds" in o.failure.detail:
                # one known root cause whatever the access and the panic site (see KNOWN_FINDINGS.txt)
                o.failure.sig = SIG_CYCLIC
        return o
    if case[0] == "src":
        o = run_source(case[2], ctx, case[1], case[1])
        o.sample = short(case[2], 300)
        return o
    _, ni, recv_i, kinds = case
    nat = natives()
    entry = nat[ni % len(nat)]
    arg_kinds = [KIND_NAMES[k] for k in kinds]
    src = program_for(entry, recv_i, arg_kinds)
    if src is None:
        return Outcome(discarded="no-receiver-for-" + entry[0])
    tag = "%s.%s" % (entry[0].split("/")[-1], entry[2])
    o = run_source(src, ctx, tag, "native %s(%s)" % (tag, ", ".join(arg_kinds)))
    o.labels = list(o.labels) + ["file:" + entry[0].split("/")[-1]]
    o.sample = "%s(%s)" % (tag, ", ".join(arg_kinds))
    return o


# ------------------------------------------------------------------------------------------- enumerated part
SHAPES = {
    "recursion-fn": "fn f(n) { return f(n + 1) + 1; }\ntry { f(0); } catch e { print(e.message); }\nprint(\"end\");",
    "recursion-fn-uncaught": "fn f(n) { return f(n + 1) + 1; }\nf(0);",
    "recursion-closure": "let g = nil;\ng = |n| g(n + 1);\ntry { g(0); } catch e { print(e.message); }\nprint(\"end\");",
    "recursion-method": "class R { m(n) { return self.m(n + 1); } }\ntry { R().m(0); } catch e { print(e.message); }\nprint(\"end\");",
    "recursion-init": "class R { init() { self.x = R(); } }\ntry { R(); } catch e { print(e.message); }\nprint(\"end\");",
    "recursion-each": "fn f(x) { [1].iter().each(f); }\ntry { f(1); } catch e { print(e.message); }\nprint(\"end\");",
    "recursion-each-uncaught": "fn f(x) { [1].iter().each(f); }\nf(1);",
    "recursion-map-list": "fn f(x) { return [1].iter().map(f).list(); }\ntry { f(1); } catch e { print(e.message); }\nprint(\"end\");",
    "recursion-sort": "fn f(a, b) { [2, 1].sort(f); return 0; }\ntry { f(1, 2); } catch e { print(e.message); }\nprint(\"end\");",
    "recursion-str": "class T { str() { return \"${self}\"; } }\ntry { print(T()); } catch e { print(e.message); }\nprint(\"end\");",
    "recursion-reduce": "fn f(a, x) { return [1].iter().reduce(0, f); }\ntry { f(0, 1); } catch e { print(e.message); }\nprint(\"end\");",
    "recursion-call-native": "fn f(x) { return f.call(x); }\ntry { f(1); } catch e { print(e.message); }\nprint(\"end\");",
    "error-in-catch": "try { try { raise Error(\"a\"); } catch e { raise Error(\"b\"); } } catch e2 { print(e2.message); }\nprint(\"end\");",
    "error-in-catch-uncaught": "try { raise Error(\"a\"); } catch e { nil + 1; }",
    "error-in-str-print": "class T { str() { raise Error(\"s\"); } }\ntry { print(T()); } catch e { print(e.message); }\nprint(\"end\");",
    "error-in-str-interp": "class T { str() { raise Error(\"s\"); } }\ntry { print(\"v ${T()}\"); } catch e { print(e.message); }\nprint(\"end\");",
    "error-in-str-list": "class T { str() { raise Error(\"s\"); } }\ntry { print([T()]); } catch e { print(e.message); }\nprint(\"end\");",
    "str-returns-non-string-print": "class T { str() { 5 } }\ntry { print(T()); } catch e { print(e.cls().name()); }\nprint(\"end\");",
    "str-returns-non-string-interp": "class T { str() { nil } }\ntry { print(\"${T()}\"); } catch e { print(e.cls().name()); }\nprint(\"end\");",
    "str-returns-non-string-list": "class T { str() { [] } }\ntry { print([T()]); } catch e { print(e.cls().name()); }\nprint(\"end\");",
    "user-iterator-raises": "class It { iter() { self } next() { raise Error(\"n\"); } current() { 1 } }\ntry { for x in It() { print(x); } } catch e { print(e.message); }\nprint(\"end\");",
    "user-iterator-bad-next": "class It { iter() { self } next() { 5 } current() { 1 } }\nlet n = 0;\ntry { for x in It() { n += 1; if n > 3 { break; } } } catch e { print(e.cls().name()); }\nprint(\"end\");",
    "exit-nested-fn": "fn a() { b(); }\nfn b() { exit(4); }\ntry { a(); } catch e { print(\"caught\"); }\nprint(\"end\");",
    "exit-in-each": "try { [1].iter().each(|x| exit(3)); } catch e { print(\"caught\"); }\nprint(\"end\");",
    "exit-in-map-list": "try { [1].iter().map(|x| exit(3)).list(); } catch e { print(\"caught\"); }\nprint(\"end\");",
    "exit-in-sort": "try { [2, 1].sort(|a, b| exit(3)); } catch e { print(\"caught\"); }\nprint(\"end\");",
    "exit-in-str": "class T { str() { exit(6); } }\nprint(T());\nprint(\"end\");",
    "exit-in-init": "class T { init() { exit(2); } }\nT();\nprint(\"end\");",
    "extend-list": "class Foo : List {}\ntry { let f = Foo(); f.push(1); print(f.len()); } catch e { print(e.cls().name()); }\nprint(\"end\");",
    "extend-map": "class Foo : Map {}\ntry { let f = Foo(); f.set(1, 2); print(f.len()); } catch e { print(e.cls().name()); }\nprint(\"end\");",
    "extend-string": "class Foo : String {}\ntry { let f = Foo(); print(f.len()); } catch e { print(e.cls().name()); }\nprint(\"end\");",
    "extend-number": "class Foo : Number {}\ntry { let f = Foo(); print(f.floor()); } catch e { print(e.cls().name()); }\nprint(\"end\");",
    "extend-iter": "class Foo : Iter {}\ntry { let f = Foo(); print(f.next()); } catch e { print(e.cls().name()); }\nprint(\"end\");",
    "extend-tuple": "class Foo : Tuple {}\ntry { let f = Foo(); print(f.len()); } catch e { print(e.cls().name()); }\nprint(\"end\");",
    "extend-channel": "class Foo : Channel {}\ntry { let f = Foo(); print(f.len()); } catch e { print(e.cls().name()); }\nprint(\"end\");",
    "extend-fun": "class Foo : Fun {}\ntry { let f = Foo(); print(f.name()); } catch e { print(e.cls().name()); }\nprint(\"end\");",
    "extend-class": "class Foo : Class {}\ntry { let f = Foo(); print(f.name()); } catch e { print(e.cls().name()); }\nprint(\"end\");",
    "extend-error-custom-init": "class E2 : Error { init(a) { self.a = a; } }\ntry { raise E2(1); } catch e { print(e.a); print(e.message); }\nprint(\"end\");",
    "extend-error-uncaught-no-message": "class E2 : Error { init(a) { self.a = a; } }\nraise E2(1);",
    "call-nil": "try { nil(); } catch e { print(e.message); }",
    "call-number": "try { 5(1); } catch e { print(e.message); }",
    "call-string": "try { \"s\"(); } catch e { print(e.message); }",
    "call-instance": "class Z {}\ntry { Z()(); } catch e { print(e.message); }",
    "collect-empty-then-push": "let l = List.collect([].iter());\nl.push(1);\nprint(l);",
    "native-stack-overflow-fixture": "fn overflow() {\n  let a = [1, 2, 3, 4, 5, 6, 7, 8, 9, 10];\n  a.iter().each(|x| overflow());\n}\ntry { overflow(); } catch e { print(e.message); }\nprint(\"end\");",
    "deep-map-chain": "let it = [1].iter();\nfor i in 3000.times() { it = it.map(|x| x); }\ntry { print(it.list()); } catch e { print(e.message); }\nprint(\"end\");",
    "deep-list-str": "let l = [];\nlet cur = l;\nfor i in 3000.times() { let n = []; cur.push(n); cur = n; }\ntry { print(l.str().len()); } catch e { print(e.message); }\nprint(\"end\");",
    "self-containing-list-str": "let l = [1];\nl.push(l);\ntry { print(l); } catch e { print(e.message); }\nprint(\"end\");",
    "self-containing-map-str": "let m = {};\nm[1] = m;\ntry { print(m); } catch e { print(e.message); }\nprint(\"end\");",
    "map-mutated-during-iteration": "let m = {1: 1, 2: 2, 3: 3};\ntry { for kv in m { m[kv[0] + 10] = 1; m.remove(kv[0]); } } catch e { print(e.message); }\nprint(\"end\");",
    "list-mutated-during-iteration": "let l = [1, 2, 3];\nlet n = 0;\nfor x in l { n += 1; if n < 50 { l.push(x); } l.pop(); l.pop(); }\nprint(l.len());",
    "undefined-before-definition": "try { print(later); } catch e { print(e.message); }\nlet later = 1;\nprint(later);",
    "native-fails-under-native-that-succeeds": "fn lv2() {}\nfn lv3(x) { try { [1].iter().each(lv2); } catch e {} return true; }\nprint([1].iter().all(lv3));\nprint([1, 2].iter().map(lv3).list());\nprint(\"end\");",
    "launch-method-using-self": "class Foo { init() { self.v = 7; } bar(c) { c <- self.v; } }\nlet ch = chan(1);\nlet foo = Foo();\nlaunch foo.bar(ch);\nprint(<- ch);\nlet b = foo.bar;\nlaunch b(ch);\nprint(<- ch);",
    "class-with-300-fields": "class K { init() { " + " ".join("self.f%d = %d;" % (i, i) for i in range(300)) + " } get() { return self.f299 + @f0; } }\ntry { let k = K(); print(k.f299); print(k.get()); k.f150 = 7; print(k.f150); } catch e { print(e.message); }\nprint(\"end\");",
    "class-with-257-fields-subclass": "class K { init() { " + " ".join("self.f%d = %d;" % (i, i) for i in range(200)) + " } }\nclass L : K { init() { super.init(); " + " ".join("self.g%d = %d;" % (i, i) for i in range(57)) + " } }\ntry { let l = L(); print(l.g56); print(l.f199); } catch e { print(e.message); }\nprint(\"end\");",
    "print-no-args": "try { print(); } catch e { print(e.message); }\nprint(\"end\");",
}


# unbounded recursion through every kind of frame, entered at different depths: the frame limit is checked by equality
# in several places, so whether a native lands exactly on the limit depends on the depth the cycle started at
RECURSIONS = {
    "fn": ("fn f(n) { return f(n + 1) + 1; }", "f(0)"),
    "closure": ("let g = nil;\ng = |n| g(n + 1);", "g(0)"),
    "method": ("class R { m(n) { return self.m(n + 1); } }", "R().m(0)"),
    "init": ("class R { init() { self.x = R(); } }", "R()"),
    "each": ("fn f(x) { [1].iter().each(f); }", "f(1)"),
    "each-lambda": ("fn f(x) { [1].iter().each(|y| f(y)); }", "f(1)"),
    "each-lambda-lambda": ("fn f(x) { [1].iter().each(|y| (|z| f(z))(y)); }", "f(1)"),
    "map-list": ("fn f(x) { return [1].iter().map(f).list(); }", "f(1)"),
    "filter-list": ("fn f(x) { return [1].iter().filter(f).list(); }", "f(1)"),
    "all": ("fn f(x) { return [1].iter().all(f); }", "f(1)"),
    "any": ("fn f(x) { return [1].iter().any(f); }", "f(1)"),
    "reduce": ("fn f(a, x) { return [1].iter().reduce(0, f); }", "f(0, 1)"),
    "into": ("fn f(it) { return [1].iter().into(f); }", "f(nil)"),
    "sort": ("fn f(a, b) { [2, 1].sort(f); return 0; }", "f(1, 2)"),
    "call-native": ("fn f(x) { return f.call(x); }", "f(1)"),
    "str-interp": ("class T { str() { return \"${self}\"; } }", "print(T())"),
    "str-print": ("class T { str() { print(self); return \"t\"; } }", "print(T())"),
    "str-list": ("class T { str() { return [self].str(); } }", "print(T())"),
    "str-map": ("class T { str() { return {1: self}.str(); } }", "print(T())"),
    "str-tuple": ("class T { str() { return (self, 1).str(); } }", "print(T())"),
    "for-user-iterator": ("class It { iter() { self } next() { for x in It() { } return false; } current() { 1 } }", "for x in It() { }"),
    "index-get-user": ("fn f(x) { return [f][0](x); }", "f(1)"),
}


def field_corruption_sources():
    """Builtin instances keep their state in ordinary fields: a script can overwrite them with any value before the
    natives (or the vm's own traceback printer) read them back."""
    out = []
    values = ["5", "nil", "[1]", "true", "Obj()", "|x| x", "(1, 2)", "{}"]
    for field in ("pattern", "flags"):
        for vi, v in enumerate(values):
            for m in ("test", "match", "captures", "matchAll"):
                out.append(("regexp-%s-%d-%s" % (field, vi, m),
                            "import std.regexp:{RegExp};\nclass Obj {}\nlet r = RegExp(\"a+\");\nr.%s = %s;\n"
                            "try { print(r.%s(\"caat\")); } catch e { print(e.cls().name()); }\nprint(\"end\");" % (field, v, m)))
    for field in ("message", "inner", "backTrace"):
        for vi, v in enumerate(values):
            base = "class Obj {}\nlet err = Error(\"m\");\nerr.%s = %s;\n" % (field, v)
            out.append(("error-%s-%d-caught" % (field, vi),
                        base + "try { raise err; } catch e { print(e.cls().name()); }\nprint(\"end\");"))
            out.append(("error-%s-%d-uncaught" % (field, vi), base + "raise err;"))
            out.append(("error-%s-%d-as-inner-uncaught" % (field, vi), base + "raise Error(\"outer\", err);"))
            out.append(("error-%s-%d-raised-in-fn-uncaught" % (field, vi), base + "fn f() { raise err; }\nfn g() { f(); }\ng();"))
    return out


def bad_superclass_sources():
    """class K : <not a class>: with and without uses of super in the body (a class whose body mentions super
    receives its superclass in a box)."""
    out = []
    values = ["5", "nil", "[1]", "\"s\"", "(|| 1)", "Obj()", "true", "(1, 2)", "{}", "print", "chan(1)"]
    bodies = {"empty": "", "super-call": "m() { return super.m(); }", "super-init": "init() { super.init(); }",
              "super-get": "m() { return super.m; }", "super-in-closure": "m() { return || super.m(); }"}
    for vi, v in enumerate(values):
        for bn, b in sorted(bodies.items()):
            out.append(("superclass-%d-%s" % (vi, bn),
                        "class Obj {}\nlet sup = %s;\ntry { class K : sup { %s }\nprint(K); } catch e { print(e.message); }\nprint(\"end\");" % (v, b)))
            out.append(("superclass-%d-%s-in-fn" % (vi, bn),
                        "class Obj {}\nfn mk(sup) { class K : sup { %s }\nreturn K; }\ntry { print(mk(%s)); } catch e { print(e.message); }\nprint(\"end\");" % (b, v)))
    return out


def native_as_callback_sources():
    """Natives handed to natives as the callback: whatever the inner one does (end the program, raise on the argument it
    gets, block) arrives in the outer one as the outcome of its callback."""
    out = []
    callbacks = ["exit", "print", "assert", "assertEq", "assertNe", "[].push", "[1, 2].pop", "\"s\".len", "\"a,b\".split",
                 "Number.parse", "List.collect", "{}.get", "(1, 2).len", "5.times", "Error", "List", "[].iter().next",
                 "chan(1).close", "print.call", "exit.call"]
    sinks = {
        "each": "[0, 1].iter().each(%s)", "map-list": "[0, 1].iter().map(%s).list()", "filter-list": "[0, 1].iter().filter(%s).list()",
        "reduce": "[0, 1].iter().reduce(0, %s)", "all": "[0, 1].iter().all(%s)", "any": "[0, 1].iter().any(%s)",
        "sort": "[2, 1, 0].sort(%s)", "into": "[0, 1].iter().into(%s)", "call": "(%s).call(0)",
    }
    for ci, cb in enumerate(callbacks):
        for sn, sink in sorted(sinks.items()):
            out.append(("native-callback-%d-%s" % (ci, sn),
                        "try { print(%s); } catch e { print(e.cls().name()); }\nprint(\"end\");" % (sink % cb)))
    return out


def odd_channel_sources():
    out = []
    for vi, v in enumerate(["1e18", "1e10", "9007199254740993", "4294967296", "65536", "0", "-1", "0.5", "nil", "\"s\"", "[1]", "0/0", "1/0"]):
        out.append(("chan-capacity-%d" % vi,
                    "try { let c = chan(%s); print(c.capacity()); c <- 1; print(c.len()); print(<- c); c.close(); print(<- c); } "
                    "catch e { print(e.cls().name()); }\nprint(\"end\");" % v))
    return out


def inconsistent_comparator_sources():
    out = []
    for n in (2, 3, 17, 64, 200, 500, 2000):
        pre = "let l = [];\nfor i in %d.times() { l.push((i * 7919) - ((i * 7919 / 1000).floor() * 1000)); }\nlet n = 0;\n" % n
        cmps = {
            "cycle": "fn cmp(a, b) { n = n + 1; if n == 3 { n = 0; return 1; } if n == 1 { return -1; } return 0; }",
            "always-less": "fn cmp(a, b) { return -1; }", "always-greater": "fn cmp(a, b) { return 1; }",
            "first-arg": "fn cmp(a, b) { return a - 500; }",
            "fails-late": "fn cmp(a, b) { n = n + 1; if n == %d { raise Error(\"late\"); } return a - b; }" % max(1, n - 1),
            "fails-then-inconsistent": "fn cmp(a, b) { n = n + 1; if n == %d { return nil; } return b - a; }" % max(1, n // 2),
        }
        for cn, c in sorted(cmps.items()):
            out.append(("sort-%s-%d" % (cn, n), pre + c + "\ntry { print(l.sort(cmp).len()); } catch e { print(e.message); }\nprint(\"end\");"))
    return out


def blocked_in_callback_sources():
    """A receive that can never complete, inside a callback run by a native: the deadlock has to be reported the same
    way as anywhere else."""
    out = []
    forms = {
        "each": "[1].iter().each(|x| <- c)",
        "map-list": "[1].iter().map(|x| <- c).list()",
        "filter-list": "[1].iter().filter(|x| <- c).list()",
        "reduce": "[1].iter().reduce(0, |a, x| <- c)",
        "sort": "[2, 1].sort(|a, b| <- c)",
        "all": "[1].iter().all(|x| <- c)",
        "call": "(|x| <- c).call(1)",
        "str": "print(Blk())",
        "send-sync": "[1].iter().each(|x| c <- x)",
    }
    for name, e in sorted(forms.items()):
        pre = "let c = chan();\nclass Blk { str() { return <- c; } }\n"
        out.append(("blocked-in-%s" % name, pre + "%s;\nprint(\"end\");" % e))
        out.append(("blocked-in-%s-in-try" % name, pre + "try { %s; } catch e { print(\"caught\"); }\nprint(\"end\");" % e))
        out.append(("blocked-in-%s-in-fiber" % name, pre + "fn w() { %s; }\nlaunch w();\nprint(\"main\");\n<- c;" % e))
    return out


def cyclic_import_sources():
    """Modules that import each other: the module that is still running is handed out with the exports it has made so
    far (as an instance of its module class, or symbol by symbol), and goes on exporting afterwards. Whatever such a
    program means, it ends with a result or an error, not in the vm's own panic.
    -> [(name, main source, {path: source})]"""
    out = []
    accesses = {"read-early": "a.a1", "read-late": "a.a2", "call-late": "a.late()", "call-early": "a.early()",
                "write-late": "a.a2 = 5", "str": "a.str()", "probe-late": "a.probe(a)"}
    for an, acc in sorted(accesses.items()):
        for when in ("in-body", "in-fn"):
            for third in (False, True):
                a = ("export let a1 = 1;\nexport fn early() { return 'early'; }\nexport fn probe(m) { return m.a2; }\n"
                     "import self.b;\nexport let a2 = 2;\nexport fn late() { return 'late'; }\nexport fn str() { return 'exported str'; }\n")
                use = "try { print(%s); } catch e { print(e.cls().name()); }" % acc
                if when == "in-body":
                    b = "import self.a;\n%s\nexport fn peek() { return 0; }\n" % use
                else:
                    b = "import self.a;\nexport fn peek() { %s return 0; }\n" % use
                files = {"/v/a.lay": a, "/v/b.lay": b}
                if third:
                    # a longer cycle: a -> b -> c -> a
                    files["/v/b.lay"] = "import self.c;\nexport fn peek() { return c.peek(); }\n"
                    files["/v/c.lay"] = b.replace("import self.a;", "import self.a;", 1)
                main = ("import self.a;\nimport self.b;\ntry { print(a.a1); print(a.a2); print(b.peek()); print(a.probe(a)); } "
                        "catch e { print(e.cls().name()); }\nprint('end');\n")
                out.append(("cyclic-import-%s-%s%s" % (an, when, "-3" if third else ""), main, files))
    # selected symbols from a module that has not exported them yet, and a module importing itself
    out.append(("cyclic-import-symbol-late", "import self.a;\nprint('end');\n",
                {"/v/a.lay": "export let a1 = 1;\nimport self.b;\nexport let a2 = 2;\n", "/v/b.lay": "import self.a:{a2};\nprint(a2);\n"}))
    out.append(("cyclic-import-symbol-early", "import self.a;\nprint('end');\n",
                {"/v/a.lay": "export let a1 = 1;\nimport self.b;\nexport let a2 = 2;\n", "/v/b.lay": "import self.a:{a1};\nprint(a1);\n"}))
    out.append(("cyclic-import-self", "import self.a;\nprint(a.a1);\nprint('end');\n",
                {"/v/a.lay": "export let a1 = 1;\nimport self.a;\ntry { print(a.a1); print(a.a2); } catch e { print(e.cls().name()); }\nexport let a2 = 2;\n"}))
    return out


def huge_and_mutating_sources():
    """Iterators whose size hint is as large as a number can say (the natives that collect or measure them must not
    believe it blindly), containers changed by the str() of their own elements while a native walks them, and errors
    raised while a catch clause is being matched."""
    out = []
    # (collecting such an iterator directly is a program that asks for 10^18 elements: it runs out of memory or time,
    # which is not this property's business; every shape here ends after a few elements)
    for big in ("1e18", "1e300", "9007199254740993", "(1/0)"):
        for tail in (".times().len()", ".times().chain(%s.times()).len()" % big, ".times().take(3).list()",
                     ".times().skip(2).take(2).list()", ".times().zip(%s.times()).take(1).list()" % big,
                     ".times().map(|x| x).take(2).list()", ".times().chain([1].iter()).take(2).into(List.collect)"):
            out.append(("huge-%s%s" % (big, tail), "try { print(%s%s); } catch e { print(e.cls().name()); }\nprint(\"end\");" % (big, tail)))
        out.append(("huge-until-%s" % big, "try { print(0.until(%s).take(2).list()); } catch e { print(e.cls().name()); }\nprint(\"end\");" % big))
    grow = ("let %s = %s;\nclass Grow {\n  str() { %s return 'grow'; }\n}\n")
    for kind, init, add, fill in (("map", "{}", "for i in 100.times() { c[i] = i; }", "c['a'] = Grow();\nc['b'] = Grow();"),
                                  ("map-remove", "{}", "c.remove('a'); c.remove('b'); c.remove('z');", "c['a'] = Grow();\nc['b'] = Grow();\nc['z'] = 1;"),
                                  ("list", "[]", "for i in 100.times() { c.push(i); }", "c.push(Grow());\nc.push(Grow());"),
                                  ("list-clear", "[]", "c.clear();", "c.push(Grow());\nc.push(Grow());\nc.push(3);"),
                                  ("list-pop", "[]", "c.pop();", "c.push(Grow());\nc.push(Grow());\nc.push(3);")):
        for use in ("print(c.str().len() > 0);", "print('${c}'.len() > 0);", "print(c);", "print([c, c].str().len() > 0);"):
            out.append(("mutating-str-%s-%s" % (kind, use[:9]), (grow % ("c", init, add)) + fill + "\ntry { " + use + " } catch e { print(e.cls().name()); }\nprint(\"end\");"))
    out.append(("catch-class-undefined-yet", "fn f() {\n  try { raise Error(\"x\"); } catch e: Later { print(\"caught\"); }\n}\ntry { f(); } catch e { print(e.cls().name()); }\nclass Later : Error {}\nprint(\"end\");"))
    out.append(("catch-class-undefined-yet-uncaught", "fn f() {\n  try { raise Error(\"x\"); } catch e: Later { print(\"caught\"); }\n}\nf();\nclass Later : Error {}"))
    out.append(("catch-class-expression-raises-second-clause", "fn f() {\n  try { [][1]; } catch e: Later { print(\"a\"); } catch e { print(\"b\"); }\n}\ntry { f(); } catch e { print(e.cls().name()); }\nlet Later = 1;\nprint(\"end\");"))
    return out


def builtin_constructor_sources():
    """The classes of the primitive values called like constructors (by name, through cls() of a value, through the
    meta class of a class): whatever comes back must not be taken for the primitive by that class's natives."""
    out = []
    ctors = {"List": ("List()", ["len()", "push(1)", "str()"]), "list-cls": ("[].cls()()", ["len()", "pop()"]),
             "Map": ("Map()", ["len()", "str()", "set(1, 2)"]), "String": ("String()", ["len()", "up()", "str()"]),
             "string-cls": ("'a'.cls()()", ["len()"]), "Number": ("Number()", ["floor()", "str()", "times()"]),
             "Tuple": ("Tuple()", ["len()", "str()"]), "Iter": ("Iter()", ["next()", "list()"]),
             "iter-cls": ("[].iter().cls()()", ["next()"]), "Channel": ("Channel()", ["len()", "close()"]),
             "Fun": ("Fun()", ["name()", "call()"]), "Method": ("Method()", ["name()"]), "Native": ("Native()", ["name()"]),
             "native-cls": ("print.cls()()", ["name()"]), "Class": ("Class()", ["name()", "superCls()", "str()"]),
             "meta-of-builtin": ("Error.cls()()", ["name()", "str()"]), "meta-of-user": ("A.cls()()", ["name()", "str()"]),
             "Bool": ("Bool()", ["str()"]), "Nil": ("Nil()", ["str()"]), "Closure": ("Closure()", ["name()"]),
             "Module": ("Module()", ["str()"]), "Object": ("Object()", ["str()"])}
    for name, (ctor, calls) in sorted(ctors.items()):
        for call in calls + ["print"]:
            use = "print(x);" if call == "print" else "print(x.%s);" % call
            out.append(("builtin-constructor-%s-%s" % (name, call.split("(")[0]),
                        "class A {}\ntry { let x = %s; %s } catch e { print(e.cls().name()); }\nprint(\"end\");" % (ctor, use)))
    return out


def recursion_sources():
    out = []
    for name, (decl, start) in sorted(RECURSIONS.items()):
        for k in range(0, 7):
            wrappers = []
            call = start
            for j in range(k):
                wrappers.append("fn w%d() { %s; }" % (j, call))
                call = "w%d()" % j
            out.append(("recursion-%s-from-depth-%d" % (name, k),
                        decl + "\n" + "\n".join(wrappers) + "\ntry { %s; } catch e { print(e.message); }\nprint(\"end\");" % call))
            if k in (0, 3):
                out.append(("recursion-%s-from-depth-%d-uncaught" % (name, k), decl + "\n" + "\n".join(wrappers) + "\n%s;" % call))
    return out


def extra(tier, ctx):
    out = []
    for name, src in sorted(SHAPES.items()) + recursion_sources() + field_corruption_sources() + blocked_in_callback_sources() + bad_superclass_sources() + \
            native_as_callback_sources() + odd_channel_sources() + inconsistent_comparator_sources() + huge_and_mutating_sources() + builtin_constructor_sources():
        o = run_source(src, ctx, "shape:" + name, "shape " + name)
        o.nontrivial = True
        o.labels = ["shape"]
        o.sample = "shape " + name
        if o.failure is not None:
            o.failure.info["case"] = enc(("src", "shape:" + name, src))
        out.append(o)
    for name, src, files in cyclic_import_sources():
        o = run_case(("srcfiles", "shape:" + name, src, sorted(files.items())), ctx)
        o.nontrivial = True
        o.labels = ["shape", "cyclic-import"]
        o.sample = "shape " + name
        out.append(o)
    # pairwise matrix: every native x every kind in every position
    nat = natives()
    for ni, entry in enumerate(nat):
        key, kind, name, ak, lo, hi, params = entry
        tag = "%s.%s" % (key.split("/")[-1], name)
        maxn = min(3, hi)
        vectors = []
        for n in range(0, maxn + 1):
            base = [DEFAULT_FOR.get(params[i] if i < len(params) else (params[-1] if params else "Object"), "list") for i in range(n)]
            vectors.append(base)
            for pos in range(n):
                for k in KIND_NAMES:
                    v = list(base)
                    v[pos] = k
                    vectors.append(v)
        if tier == "quick":
            # quick: every kind in every position for the declared arity range only, plus one short and one long call
            vectors = [v for v in vectors if lo <= len(v) <= max(lo, min(hi, 3))] + [[], ["one"] * (maxn + 1)]
        seen = set()
        for v in vectors:
            t = tuple(v)
            if t in seen:
                continue
            seen.add(t)
            src = program_for(entry, 0, v)
            if src is None:
                continue
            o = run_source(src, ctx, tag, "native %s(%s)" % (tag, ", ".join(v)))
            o.labels = list(o.labels) + ["matrix"]
            o.sample = "%s(%s)" % (tag, ", ".join(v))
            if o.failure is not None:
                o.failure.info["case"] = enc(("src", tag, src))
            out.append(o)
    return out
