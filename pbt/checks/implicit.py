"""Programs that declare something of their own under the name of a builtin class the language refers to implicitly:
a class without a superclass inherits the builtin Object and a catch clause without a class catches every Error,
whatever the names Object and Error mean in the user's scope at that point. Shared by C03 (Object) and C04 (Error)."""
from ..oracle import crash_failure
from ..runner import Failure, Outcome, enc

HAZ_OBJECT = "user-declaration-named-Object"
HAZ_ERROR = "user-declaration-named-Error"

SCENARIOS = {
    # name: (property, source, stdout expected)
    "class-named-Object": ("C03",
                           "class Object {\n  init() { self.a = 1; }\n  get() { return self.a; }\n}\nprint(Object().get());\n"
                           "class K { init() { self.b = 2; } }\nprint(K().b);\n", "1\n2\n"),
    "local-named-Object": ("C03",
                           "class Base {\n  init() { self.q = 'q'; }\n  getQ() { return self.q; }\n}\n"
                           "fn f() {\n  let Object = Base;\n  class Foo {\n    init() { self.a = 'a'; }\n    getA() { return self.a; }\n  }\n"
                           "  let foo = Foo();\n  print(Foo.superCls().name());\n  print(foo.getA());\n  print(foo.a);\n"
                           "  try { print(foo.getQ()); } catch e { print(e.cls().name()); }\n}\nf();\n",
                           "Object\na\na\nPropertyError\n"),
    "module-variable-named-Object-declared-later": ("C03", "class Foo {}\nprint(Foo.name());\nlet Object = 1;\nprint(Object);\n", "Foo\n1\n"),
    "class-named-Error-blank-catch": ("C04",
                                      "class Error {\n  init() { self.m = 1; }\n}\ntry {\n  [][3];\n} catch e {\n  print('caught');\n}\nprint(Error().m);\n",
                                      "caught\n1\n"),
}


def run_scenario(name, ctx):
    prop, src, want = SCENARIOS[name]
    sig = "%s/implicit-builtin-through-user-scope/%s" % (prop, name)
    fail = None
    runs = 0
    for variant in ("dbg", "rel"):
        r = ctx.worker(variant).run(src)
        runs += 1
        if r.get("outcome") != "ok" or r.get("stdout") != want:
            crash = crash_failure(prop, r, src, variant)
            fail = Failure(sig, "%s on %s: expected a normal end with stdout %r, got %s with stdout %r%s\n%s\n--- source\n%s" %
                           (name, variant, want, r.get("outcome"), r.get("stdout"), " (%s)" % crash.sig if crash else "",
                            (r.get("stderr") or "")[-400:], src), {"source": src, "case": enc(("implicit", name))})
            break
    return Outcome(key="implicit:" + name, nontrivial=True, labels=["implicit-builtin-scenario"], failure=fail, runs=runs)


def scenarios_of(prop):
    return [n for n, (p, _s, _w) in SCENARIOS.items() if p == prop]
