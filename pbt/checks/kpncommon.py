"""Shared evaluation of process networks for C07 (safety) and C08 (progress)."""
from .. import kpn
from .. import worker as W
from ..lang import printer
from ..oracle import crash_failure
from ..runner import Failure


def evaluate(net, ctx, variant, schedule=W.NATURAL):
    """-> dict(src, model, r, per, clocks, stray, crash)"""
    prog = kpn.build_program(net)
    src = printer.to_source(prog)[0]
    m = kpn.run_model(net)
    budget = max(2_000_000, 2000 * (m.steps + 10))
    r = ctx.worker(variant).run(src, schedule=schedule, budget=budget)
    per, clocks, stray = kpn.parse_output(r.get("stdout") or "")
    return {"src": src, "model": m, "r": r, "per": per, "clocks": clocks, "stray": stray, "net": net}


def vm_outcome(r):
    if r.get("outcome") == "ok":
        return "complete"
    if r.get("outcome") == "runtime_error" and "Fatal error deadlock." in (r.get("stderr") or ""):
        return "deadlock"
    return "other:" + str(r.get("outcome"))


def describe(ev):
    m = ev["model"]
    out = ["model outcome: %s, vm outcome: %s" % (m.outcome, vm_outcome(ev["r"]))]
    for f in sorted(m.lines):
        out.append("  F%d model: %s" % (f, " | ".join(m.lines[f])))
        out.append("  F%d vm   : %s" % (f, " | ".join(ev["per"].get(f, []))))
    if ev["stray"]:
        out.append("  other vm output: %r" % ev["stray"][:5])
    err = (ev["r"].get("stderr") or "").strip()
    if err:
        out.append("  vm stderr: %s" % err[-300:])
    return "\n".join(out)


def safety_failure(prop, ev):
    """C07: what was delivered is a prefix of the determinate history; capacity; sync ordering."""
    m, per, src = ev["model"], ev["per"], ev["src"]
    info = {"source": src}
    if any("CAPACITY EXCEEDED" in l for l in ev["stray"]):
        return Failure("%s/capacity-exceeded" % prop, "a channel held more values than its capacity\n%s\n--- source\n%s" %
                       (describe(ev), src), info)
    for f, got in per.items():
        want = m.lines.get(f)
        if want is None:
            return Failure("%s/unknown-fiber-output" % prop, "output from a fiber the network does not have\n%s\n--- source\n%s" %
                           (describe(ev), src), info)
        if got != want[:len(got)]:
            i = 0
            while i < len(got) and i < len(want) and got[i] == want[i]:
                i += 1
            kind = "delivery"
            g = got[i] if i < len(got) else ""
            if g.startswith("recv"):
                kind = "received-wrong-value"
            elif g.startswith("send-closed") or g.startswith("send"):
                kind = "send-outcome"
            elif g.startswith("join"):
                kind = "joined-log"
            return Failure("%s/%s" % (prop, kind),
                           "fiber %d's operations are not a prefix of its determinate history (first difference at #%d: vm %r, "
                           "model %r)\n%s\n--- source\n%s" % (f, i, g, want[i] if i < len(want) else None, describe(ev), src), info)
    # synchronous channels: the receiver has the value before the send returns
    clocks = ev["clocks"]
    recv_at = {}
    for (f, text), t in clocks.items():
        if text.startswith("recv ") and not text.endswith(" nil"):
            recv_at[int(text.split()[2])] = t
    for (f, text), t in clocks.items():
        if text.startswith("send ") and not text.startswith("send-closed"):
            v = int(text.split()[2])
            if v in m.sync_values:
                if v not in recv_at or recv_at[v] > t:
                    return Failure("%s/sync-send-returned-before-take" % prop,
                                   "synchronous send of %d returned at clock %d but the value was %s\n%s\n--- source\n%s" %
                                   (v, t, "taken at %d" % recv_at[v] if v in recv_at else "never taken", describe(ev), src), info)
    return None


def close_suffix(ev):
    """Signature suffix when the stall is the known 'close by a non sender leaves the receiver parked' shape."""
    m, per = ev["model"], ev["per"]
    net = ev["net"]
    for f, want in m.lines.items():
        got = per.get(f, [])
        if len(got) < len(want) and got == want[:len(got)]:
            nxt = want[len(got)]
            parts = nxt.split()
            if len(parts) == 3 and parts[0] == "recv" and parts[2] == "nil":
                c = int(parts[1][1:])
                senders = [g for g, sc in enumerate(net["scripts"]) if any(op[0] == "send" and op[1] == c for op in sc)]
                if not senders:
                    return "/close-by-non-sender-leaves-receiver-parked"
    return ""


def progress_failure(prop, ev):
    """C08: completes exactly when the model completes, deadlock exactly when nothing can run, with
    every possible effect applied by then."""
    m, per, src, r = ev["model"], ev["per"], ev["src"], ev["r"]
    info = {"source": src}
    vo = vm_outcome(r)
    if vo.startswith("other"):
        if r.get("outcome") == "budget":
            return Failure("%s/spins" % prop, "the program exceeded 2000x the model's step count without finishing or "
                           "reporting deadlock\n%s\n--- source\n%s" % (describe(ev), src), info)
        return Failure("%s/unexpected-outcome" % prop, "unexpected outcome %s\n%s\n--- source\n%s" %
                       (r.get("outcome"), describe(ev), src), info)
    if vo != m.outcome:
        if vo == "deadlock":
            return Failure("%s/spurious-deadlock%s" % (prop, close_suffix(ev)), "the vm reports deadlock although every fiber can finish\n%s\n--- source\n%s" %
                           (describe(ev), src), info)
        return Failure("%s/missed-deadlock" % prop, "the vm completes although the main fiber can never finish\n%s\n--- source\n%s" %
                       (describe(ev), src), info)
    # same outcome: at that point nothing more could happen, so every fiber must have done all the model says
    # (main's history is complete in both cases; other fibers too because main joins them / quiescence)
    for f, want in m.lines.items():
        got = per.get(f, [])
        if vo == "complete" and f != 0 and f in m.unstarted:
            continue
        if got != want:
            if len(got) < len(want) and got == want[:len(got)]:
                if vo == "deadlock":
                    return Failure("%s/deadlock-while-runnable%s" % (prop, close_suffix(ev)),
                                   "deadlock was reported while fiber %d could still perform %r\n%s\n--- source\n%s" %
                                   (f, want[len(got)], describe(ev), src), info)
                return Failure("%s/missing-fiber-effects" % prop,
                               "the program ended but fiber %d's effects stop before %r\n%s\n--- source\n%s" %
                               (f, want[len(got)], describe(ev), src), info)
            # a non-prefix difference is a safety matter (C07), not reported here
    if vo == "deadlock" and r.get("code") == 0:
        return Failure("%s/deadlock-status" % prop, "deadlock reported with a success status", info)
    return None
