"""C01 Expressions, operators and control flow evaluate per the source semantics."""
from hypothesis import strategies as st

from ..lang import gen, printer
from ..oracle import compare_model, same_behaviour
from ..runner import Outcome
from .common import layout_ints, run_model, short

PROPERTY = "C01"
LEVEL = "exploration"
VARIANTS = ("dbg", "rel")
RULE = ("Hypothesis draws a well scoped, terminating program over the core grammar (literals, unary/binary/"
        "short-circuit operators, ternaries, assignment expressions, let, if/else-if/else, while, for, break, "
        "continue, fn, lambdas, implicit/explicit returns, right and wrong arity calls; ~1.5% of sub-expressions "
        "deliberately of the wrong kind). Each AST is printed in 3 layouts (pretty, fully parenthesised compact, "
        "noisy with random parentheses/comments/newlines) and its body is also placed in a function, a method and "
        "a lambda; every spelling runs on the debug worker (and the pretty one on the release worker) and is "
        "compared with the reference evaluator (stdout, exit class, error class). Non-trivial: the model's trace "
        "has >=1 executed branch or loop iteration, >=3 operator applications and >=1 printed line; distinct by "
        "canonical (pretty) text.")
ASSUMPTIONS = ["the reference evaluator (pbt/lang/model.py) encodes the source semantics; it was written from the "
               "README / grammar / fixtures and shares no code with the vm",
               "cases whose model run exceeds its step budget or leaves the modelled subset are discarded (counted)"]
GATES = {"nontrivial": 0.30, "loop": 0.10, "call": 0.10}
LEVEL_TEXT = ("Generated-program search against an independent reference evaluator plus two metamorphic relations "
              "(layout/parenthesisation and position invariance). It finds violations in the programs it generates "
              "(thousands per run, distribution measured by labels) and says nothing about programs outside the "
              "generator's grammar and depth bounds; that is the level a property quantified over all programs "
              "admits for this technique.")
LEVEL_NOTE = ("Trusted base: the reference evaluator and printer in pbt/lang, the worker harness, Hypothesis. "
              "Error messages are compared only by class; number formatting relies on Rust's shortest round-trip "
              "Display being reproduced by decimal.Decimal(repr(x)).")
TECHNIQUE = "property-based testing (Hypothesis): model-based + metamorphic oracle over generated programs"


def cases(tier):
    return 1600 if tier == "quick" else 80000


SIG_INDEX_TWICE = "C01/compound-index-assignment-evaluates-index-twice"


def cfg(hazards):
    return gen.Cfg(p_confuse=1, effectful_index=True, hazards=hazards)


def strategy(hazards):
    return st.tuples(gen.program(cfg(hazards)), layout_ints(), layout_ints())


def wrap_fn(prog):
    return [("fn", "wrapF", [], list(prog)), ("expr", ("call", ("var", "wrapF"), []))]


def wrap_method(prog):
    return [("class", "WrapK", None, None, [("m", [], list(prog))], []),
            ("expr", ("call", ("prop", ("call", ("var", "WrapK"), []), "m"), []))]


def wrap_lambda(prog):
    return [("let", "wrapG", ("lambda", [], ("block", list(prog)))), ("expr", ("call", ("var", "wrapG"), []))]


def run_case(case, ctx):
    if case and case[0] == "boundary":
        prog = dict(boundary_programs())[case[1]]
        src, lines = printer.to_source(prog)
        res, _why = run_model(prog, lines, step_limit=2_000_000)
        fail = None
        for v in ("dbg", "rel"):
            fail = compare_model(PROPERTY, res, ctx.worker(v).run(src), "(%s)" % case[1], v)
            if fail is not None:
                break
        return Outcome(key="boundary:" + case[1], nontrivial=True, labels=["boundary"], failure=fail, runs=2)
    prog, noise, bits = case
    src, lines = printer.to_source(prog)
    res, why = run_model(prog, lines)
    if res is None:
        return Outcome(discarded=why)
    c = res.counts
    labels = ["outcome:" + res.outcome]
    if c.get("loop_iter"):
        labels.append("loop")
    if c.get("branch"):
        labels.append("branch")
    if c.get("call"):
        labels.append("call")
    if res.err_class:
        labels.append("err:" + res.err_class)
    nontrivial = (c.get("branch", 0) + c.get("loop_iter", 0) >= 1) and c.get("op", 0) >= 3 and len(res.out) >= 1
    if nontrivial:
        labels.append("nontrivial")
    dbg = ctx.worker("dbg")
    runs = 0
    fail = None
    spellings = [("pretty", src)]
    spellings.append(("parens", printer.to_source(prog, mode="compact", parens="all", quote_char="'")[0]))
    spellings.append(("noisy", printer.to_source(prog, mode="noisy", parens="random", noise=noise, paren_bits=bits,
                                                 keep_lines=False)[0]))
    spellings.append(("tight", printer.to_source(prog, mode="tight")[0]))
    first = None
    for name, text in spellings:
        r = dbg.run(text)
        runs += 1
        fail = compare_model(PROPERTY, res, r, text, "layout " + name)
        if fail is not None:
            break
        if first is None:
            first = r
    if fail is None:
        for name, wrap in (("fn", wrap_fn), ("method", wrap_method), ("lambda", wrap_lambda)):
            wprog = wrap(prog)
            wsrc, wlines = printer.to_source(wprog)
            wres, why = run_model(wprog, wlines)
            if wres is None:
                continue
            r = dbg.run(wsrc)
            runs += 1
            fail = compare_model(PROPERTY, wres, r, wsrc, "position " + name)
            if fail is None and res.outcome == wres.outcome and res.stdout() != wres.stdout():
                # the model itself disagrees between positions: not a vm finding, discard
                return Outcome(discarded="model-position-dependent")
            if fail is not None:
                break
    if fail is None:
        r = ctx.worker("rel").run(src)
        runs += 1
        fail = compare_model(PROPERTY, res, r, src, "release build")
    if "[ix" in src or "[ ix" in src:
        labels.append("compound-index-assignment")
    if fail is not None and "compound-index-assignment" in labels:
        # is this the known 'index evaluated twice' defect? then the vm agrees with the evaluator run in that mode
        res2, _why = run_model(prog, lines, index_twice=True)
        if res2 is not None and compare_model(PROPERTY, res2, dbg.run(src), src, "twice") is None and \
                compare_model(PROPERTY, res2, ctx.worker("rel").run(src), src, "twice") is None:
            fail.sig = SIG_INDEX_TWICE
    return Outcome(key=src, nontrivial=nontrivial, labels=labels, failure=fail, sample=short(src), runs=runs)


# ------------------------------------------------------------------------------------------- operand width boundaries
def _many_constants(kind, n):
    """A body whose chunk holds more than 256 distinct constants (one byte / two byte constant operands), read back."""
    N = lambda x: ("num", float(x))  # noqa: E731
    if kind == "num":
        items = [N(1000 + i) for i in range(n)]
    elif kind == "str":
        items = [("str", "s%d" % i) for i in range(n)]
    elif kind == "mixed":
        items = [N(1000 + i) if i % 2 else ("str", "s%d" % i) for i in range(n)]
    else:  # capture free function values are constants too
        items = [("lambda", [], ("expr", N(2000 + i))) for i in range(n)]
    body = [("let", "big", ("list", items))]
    for i in (0, 1, 253, 254, 255, 256, 257, 258, n - 1):
        e = ("index", ("var", "big"), N(i))
        if kind == "fn":
            e = ("call", e, [])
        body.append(("print", e))
    body.append(("print", ("call", ("prop", ("var", "big"), "len"), [])))
    # literals after the long list use indexes beyond it: plain statements with constants 256.. in operand position
    body.append(("print", ("bin", "+", N(777777), N(888888))))
    body.append(("print", ("bin", "+", ("str", "tail-a"), ("str", "tail-b"))))
    return body


def boundary_programs():
    out = []
    for kind in ("num", "str", "mixed", "fn"):
        for n in (255, 256, 257, 300, 520):
            body = _many_constants(kind, n)
            out.append(("constants-%s-%d-module" % (kind, n), body))
            out.append(("constants-%s-%d-fn" % (kind, n), wrap_fn(body)))
            out.append(("constants-%s-%d-method" % (kind, n), wrap_method(body)))
            out.append(("constants-%s-%d-lambda" % (kind, n), wrap_lambda(body)))
    return out


def extra(tier, ctx):
    from ..runner import enc
    out = []
    for name, prog in boundary_programs():
        src, lines = printer.to_source(prog)
        res, why = run_model(prog, lines, step_limit=2_000_000)
        if res is None:
            out.append(Outcome(discarded=why))
            continue
        fail = None
        runs = 0
        for v in ("dbg", "rel"):
            r = ctx.worker(v).run(src)
            runs += 1
            fail = compare_model(PROPERTY, res, r, "(%s: a list of distinct constants, see pbt/checks/c01.py)" % name, v)
            if fail is not None:
                fail.sig = "%s/boundary/%s" % (PROPERTY, fail.sig.split("/", 1)[1])
                fail.info = {"case": enc(("boundary", name))}
                break
        out.append(Outcome(key="boundary:" + name, nontrivial=True, labels=["boundary"], failure=fail, runs=runs))
    return out
