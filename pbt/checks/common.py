"""Helpers shared by the program shaped checks."""
from hypothesis import strategies as st

from ..lang import gen, model, printer, values
from ..runner import Outcome


def run_model(prog, lines=None, files=None, step_limit=200000, fibers=False, index_twice=False):
    """Returns (Result, None) or (None, discard reason)."""
    it = model.Interp(files=files, lines=lines, step_limit=step_limit)
    it.index_twice = index_twice
    it.fibers = fibers  # background fibers that run to completion when the launcher waits (see Interp.fibers)
    try:
        return it.run(prog), None
    except model.StepBudget:
        return None, "model-step-budget"
    except model.Unsupported as e:
        return None, "unsupported:" + str(e)[:40]
    except RecursionError:
        return None, "model-recursion"
    except MemoryError:
        return None, "model-memory"
    except values.NanKey:
        return None, "unsupported:nan-map-key"


def layout_ints():
    return st.lists(st.integers(0, 7), min_size=4, max_size=12)


def short(src, n=600):
    return src if len(src) <= n else src[:n] + " ..."
