"""C09 Strings compare and hash by content however and whenever they were created."""
import glob
import os

from hypothesis import strategies as st

from .. import worker as W
from ..lang import gen, printer
from ..oracle import compare_model
from ..runner import Failure, Outcome
from ..build import repo_path
from ..runner import enc
from .c05 import schedule_strategy, to_schedule
from .common import run_model, short

PROPERTY = "C09"
LEVEL = "exploration"
VARIANTS = ("dbg", "rel", "nan-dbg", "nan-rel")
RULE = ("Hypothesis draws a base content (ascii, numeric looking, keyword looking, multi-byte, names of classes / "
        "functions / methods in the program) and 1-3 near misses (one character longer / shorter, other case, reversed, "
        "empty), then a history of 6-16 steps: bind a string of a drawn content built by a drawn route (literal, "
        "concatenation of 2-3 pieces, interpolation, slice out of a padded literal, element of split, reduce over "
        "characters or pieces, one character index, number / bool / nil formatting by str() and by interpolation, "
        "upCase / downCase, trim*, Class.name() / fn.name(), export of a second module as value or function result; "
        "half of the contents never appear as a whole literal so that they can leave the intern table), drop a "
        "binding, run a garbage loop (1-60 iterations creating and dropping equal and unrelated strings), store a "
        "string as map key / list element, remove a key, and observe a pair of operands (stored or freshly built) with "
        "== / != / < <= > >= / map [] get has / list and tuple has index / String.has; each observation prints its "
        "result or error class. The program is run with the collector off, compared with the reference evaluator "
        "(python str equality), and run again under a drawn collection schedule (every allocation, every k-th, seeded, "
        "explicit ordinals, byte threshold; with and without forcing full collections) on a drawn build (enum / nan "
        "boxed x debug / release); after the run and after a forced full collection the intern table is inspected: "
        "every key's bytes equal its string's bytes, every entry is a live String, and after a full collection there are "
        "exactly as many entries as live String objects (no two live strings with the same content); with the collector "
        "off the number of String objects at the end must equal the number of intern entries (no string was created "
        "outside the table) -- this last oracle also runs over every fixture script of the repository (each native "
        "has one), where no model is needed. Non-trivial: >= 2 "
        "different routes were used, >= 1 observation compared equal contents from different expressions, and the "
        "scheduled run freed objects before its last allocation; distinct by program text + schedule.")
ASSUMPTIONS = ["ordering of strings is by code point (byte order of UTF-8), as the tree's LyStr cmp does",
               "case mapping routes only for ascii contents; split on the empty separator not generated",
               "method / field names are compile time constants in this language (no reflection by string), so 'used as "
               "method or field name' is exercised by contents equal to names the program declares (Box, key, init, len, "
               "push, message) being created, dropped and collected around calls through those names"]
GATES = {"nontrivial": 0.30, "freed-then-allocated": 0.50}
LEVEL_TEXT = ("Model-based and invariant-based search over generated string creation histories x collection schedules; "
              "bounded by the routes, contents and schedules generated.")
LEVEL_NOTE = "Trusted base: reference evaluator, gc schedule and heap statistics hooks, poisoning allocator, worker harness."
TECHNIQUE = ("property-based testing (Hypothesis): model-based oracle over generated creation histories x gc schedules, "
             "plus intern table invariant")


def cases(tier):
    return 2400 if tier == "quick" else 80000


def strategy(hazards):
    # Hypothesis zero-extends about half of the examples it tries, which would send half of the cases to build 0
    # without forced full collections: the selectors are rotated by the size of the program
    def mix(t):
        scen, sched, ff, v = t
        k = len(repr(scen["main"]))
        return (scen, sched, ff != bool((k >> 2) & 1), (v + k) % 4)
    return st.tuples(gen.strings_scenario(), schedule_strategy(), st.booleans(), st.integers(0, 3)).map(mix)


def _intern_failure(r, what, src, never=False):
    heaps = {h.get("at"): h for h in r.get("heap", [])}
    if never:
        # the collector never ran: every String object ever allocated is still in a heap, and each of them must have
        # come through the intern table (one entry per object). A creation path that bypasses the table shows here
        # whatever the program does with the string afterwards
        h = heaps.get("after_run")
        if h and h.get("intern_len") != h.get("strings"):
            return Failure("%s/string-outside-intern-table" % PROPERTY,
                           "%s: with the collector off the program ended with %s String objects but %s intern entries: "
                           "some string was created without going through the table\n--- source\n%s" %
                           (what, h.get("strings"), h.get("intern_len"), src), {"source": src, "heap": h})
    for stage in ("after_run", "after_full_collect", "after_second_full_collect"):
        h = heaps.get(stage)
        if not h:
            continue
        if h.get("intern_mismatch") or h.get("intern_dangling"):
            return Failure("%s/intern-table-corrupt" % PROPERTY,
                           "%s, %s: %d intern keys differ from their string, %d entries are not live strings\n--- source\n%s" %
                           (what, stage, h.get("intern_mismatch"), h.get("intern_dangling"), src),
                           {"source": src, "heap": h})
        if stage != "after_run" and h.get("intern_len") != h.get("strings"):
            return Failure("%s/intern-table-size" % PROPERTY,
                           "%s, %s: %s intern entries but %s live String objects (two live strings with the same content, "
                           "or a string outside the table)\n--- source\n%s" %
                           (what, stage, h.get("intern_len"), h.get("strings"), src), {"source": src, "heap": h})
    return None


def run_case(case, ctx):
    if case and case[0] == "fixture":
        return _fixture_case(case[1], ctx, case[2])
    scen, sched, force_full, vsel = case
    try:
        src, lines = printer.to_source(scen["main"])
        texts = {p: printer.to_source(s)[0] for p, s in scen["files"].items()}
    except ValueError:
        return Outcome(discarded="unprintable")
    res, why = run_model(scen["main"], lines, files=scen["files"])
    if res is None:
        return Outcome(discarded=why)
    everything = src + "".join("\n--- %s\n%s" % (p, t) for p, t in sorted(texts.items()))
    variant = VARIANTS[vsel % 4]
    w = ctx.worker(variant)
    base = w.run(src, files=texts, schedule=W.NEVER, mode=W.MODE_RUN_COLLECT)
    fail = compare_model(PROPERTY, res, base, everything, "%s, collector off" % variant)
    if fail is None:
        fail = _intern_failure(base, "%s, collector off" % variant, everything, never=True)
    runs = 1
    labels = ["build:" + variant, "sched:" + sched[0]] + ["route:" + r for r in scen.get("routes", [])]
    if scen["files"]:
        labels.append("second-module")
    freed = False
    if fail is None:
        if base.get("gc", {}).get("allocations", 0) > 6000 and sched[0] == "every_alloc":
            sched = ("every_kth", 97)
        what = "%s, schedule %s%s" % (variant, sched, " force_full" if force_full else "")
        r = w.run(src, files=texts, schedule=to_schedule(sched), force_full=force_full, mode=W.MODE_RUN_COLLECT,
                  watchdog_s=60)
        runs += 1
        if r.get("outcome") == "timeout":
            return Outcome(discarded="watchdog")
        gc = r.get("gc", {})
        ge = r.get("gc_run_end") or {}
        freed = ge.get("freeing_collections", 0) >= 1 and ge.get("last_freeing_ordinal", 0) < ge.get("allocations", 0)
        fail = compare_model(PROPERTY, res, r, everything, what)
        if fail is None:
            fail = _intern_failure(r, what, everything)
        if fail is not None:
            fail.info["gc"] = {"ordinals": gc.get("ordinals", [])[:4096], "collections": gc.get("collections"),
                               "allocations": gc.get("allocations")}
    if force_full:
        labels.append("force_full")
    if freed:
        labels.append("freed-then-allocated")
    equal_seen = "true" in res.out
    nontrivial = len(scen.get("routes", [])) >= 2 and equal_seen and freed
    if nontrivial:
        labels.append("nontrivial")
    return Outcome(key=everything + repr(sched) + str(force_full), nontrivial=nontrivial, labels=labels, failure=fail,
                   sample={"schedule": list(sched), "force_full": force_full, "build": variant,
                           "contents": scen.get("pool"), "program": short(everything, 900)}, runs=runs)


def reexpress(case, outcome):
    scen, sched, force_full, vsel = case
    if sched[0] == "at_indices":
        return None
    ords = (outcome.failure.info.get("gc") or {}).get("ordinals") or []
    if not ords:
        return None
    return (scen, ("at_indices", list(ords)), force_full, vsel)


def _fixture_case(path, ctx, variant):
    try:
        text = open(os.path.join(repo_path(), path), encoding="utf-8").read()
    except (OSError, UnicodeDecodeError):
        return Outcome(discarded="unreadable-fixture")
    r = ctx.worker(variant).run(text, schedule=W.NEVER, mode=W.MODE_RUN_COLLECT, watchdog_s=120)
    if r.get("outcome") in ("timeout", "compile_error"):
        return Outcome(discarded="fixture-" + r.get("outcome"))
    fail = _intern_failure(r, "%s on %s, collector off" % (path, variant), short(text, 1500), never=True)
    if fail is not None:
        fail.info["case"] = enc(("fixture", path, variant))
    heaps = {h.get("at"): h for h in r.get("heap", [])}
    n = (heaps.get("after_run") or {}).get("strings", 0)
    return Outcome(key="fixture:" + path + variant, nontrivial=n > 200, labels=["fixture"], failure=fail, runs=1)


def extra(tier, ctx):
    """Every fixture script (each native of the library has one) with the collector off: all String objects that
    exist at the end must be interned, whatever native or vm path created them."""
    out = []
    root = repo_path()
    files = []
    for sub in ("laythe_vm/fixture/language", "laythe_vm/fixture/std_lib"):
        files.extend(sorted(glob.glob(os.path.join(root, sub, "**", "*.lay"), recursive=True)))
    for k, path in enumerate(files):
        if os.path.getsize(path) > 20000:
            continue
        text = open(path, encoding="utf-8", errors="replace").read()
        if "import self" in text or "stdin" in text:
            continue
        variants = VARIANTS if tier == "thorough" else (VARIANTS[k % 4],)
        for v in variants:
            out.append(_fixture_case(os.path.relpath(path, root), ctx, v))
    return out
