"""C11 Built-in collections, strings and iterators behave as their mathematical models."""
from hypothesis import strategies as st

from .. import worker as W
from ..lang import gen, printer
from ..oracle import compare_model
from ..runner import Outcome
from .common import run_model, short

PROPERTY = "C11"
LEVEL = "exploration"
VARIANTS = ("dbg", "rel")
RULE = ("Hypothesis draws a receiver (list / map / tuple / string / iterator chain) and a history of 3-12 operations on it "
        "with arguments from boundary sets (0, 1, len-ish values up to 6, -1 .. -7, 0.5, +-100, wrong kinds), empty "
        "receivers, multi-byte strings; iterator chains of 1-4 adaptors (map, filter, take, skip, zip, chain) over "
        "list.iter(), n.times(), a.until(b, s), built and consumed in one expression by list / len / first / last / "
        "reduce / all / any / each, with callbacks that are pure, that print (laziness observed through the order of "
        "side effects) or that raise. Every operation is wrapped so its result or error class is printed and the "
        "receiver is printed afterwards (maps: len and a fixed probe of get(k), never iteration order). Compared with "
        "python models (list/dict/tuple/str by code point, generator-style adaptors with the tree's size hints) on debug "
        "and release workers, every 8th case under collect-at-every-allocation. Non-trivial: >= 3 operations including "
        ">= 1 boundary or error outcome, or a chain of >= 2 adaptors with >= 1 element flowing; distinct by program text.")
ASSUMPTIONS = ["a loop over a map visits the entries that were present when it began, whatever the body does to the map (the behaviour repair 7cd1e01 defines; the property itself is silent about maps changed while iterated)",
               "behaviour classes taken as documented: negative index get/set/slice, out of range -> IndexError, fractional "
               "index on []/slice -> IndexError, remove/insert negative -> IndexError, pop on empty -> nil, missing key [] "
               "-> KeyError / get -> nil, wrong kinds -> signature RuntimeError",
               "not generated (unspecified): fractional index to remove/insert, negative/fractional take/skip counts, sort "
               "comparators returning non numbers, mutation of the receiver from a callback, statements between the "
               "construction and the consumption of an adaptor chain"]
GATES = {"nontrivial": 0.50}
LEVEL_TEXT = "Model-based stateful search over generated operation histories with boundary arguments."
LEVEL_NOTE = "Trusted base: python models in pbt/lang/natives.py, printer, worker harness."
TECHNIQUE = "property-based testing (Hypothesis): stateful model-based oracle over generated operation histories"


def cases(tier):
    return 3200 if tier == "quick" else 300000


def strategy(hazards):
    return st.tuples(gen.coll_scenario(), st.integers(0, 7))


def run_case(case, ctx):
    scen, sel = case
    kind = scen[0][1]
    prog = scen[1:]
    src, lines = printer.to_source(prog)
    res, why = run_model(prog, lines)
    if res is None:
        return Outcome(discarded=why)
    errs = sum(1 for l in res.out if l.endswith("Error"))
    labels = ["recv:" + kind, "outcome:" + res.outcome]
    if errs:
        labels.append("error-outcome")
    nontrivial = len(res.out) >= 4 and (errs >= 1 or kind == "chain" or "nil" in res.out)
    if nontrivial:
        labels.append("nontrivial")
    fail = None
    runs = 0
    for variant in ("dbg", "rel"):
        sched = W.EVERY_ALLOC if (sel == 0 and variant == "dbg") else W.NATURAL
        r = ctx.worker(variant).run(src, schedule=sched)
        runs += 1
        fail = compare_model(PROPERTY, res, r, src, variant)
        if fail is not None:
            break
    return Outcome(key=src, nontrivial=nontrivial, labels=labels, failure=fail, sample=short(src, 700), runs=runs)
