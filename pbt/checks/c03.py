"""C03 Classes: construction, fields, dispatch, inheritance, super and bound methods."""
from hypothesis import strategies as st

from ..lang import gen, printer, shadow
from ..oracle import compare_model
from ..runner import Outcome
from .common import run_model, short
from . import implicit

PROPERTY = "C03"
LEVEL = "exploration"
VARIANTS = ("dbg", "rel")
RULE = ("Hypothesis draws 1-5 classes (inheritance depth <= 4, explicit and implicit parents), initialisers assigning "
        "drawn fields in drawn order via self.x and @x (some only inside if/else), overriding patterns over a shared "
        "method-name pool, super.m() (fused) and super.m(a) (unfused) calls also through closures, static methods, "
        "lambda fields that shadow methods, methods returning closures over self; then instances of several classes "
        "reach shared call-site helper functions (invoke, invoke with args, get, set, get-then-call, bound method "
        "passed around) in a drawn order, plus undeclared property read/write/invoke inside try. Output is compared "
        "with the reference evaluator on the debug and release workers. Non-trivial: >= 2 classes related by "
        "inheritance and (an overridden method dispatched, or an inherited field accessed from a subclass method, or "
        "a shadowing field called), judged from the model's trace; distinct by program text. "
        "In one program in four up to two user declarations (variables, parameters, classes) are renamed to builtin class names the program text does not mention (Object, Error, List, ...: pbt/lang/shadow.py globalize): what the language does implicitly (the superclass of a class that names none, the class of a blank catch, literals) must not go through the user's scope.")
ASSUMPTIONS = ["reference evaluator's class model: ordered field sets collected from the text of init of the class "
               "and its ancestors, single inheritance, lexical super, statics on the class only, field-shadows-method",
               "touching an undeclared field or method must raise PropertyError (read, write and invoke alike)"]
GATES = {"inherit": 0.40, "nontrivial": 0.25}
LEVEL_TEXT = ("Generated-program search against an independent class/dispatch model; finds dispatch, field layout, "
              "super and bound-method violations in generated hierarchies and call-site histories; bounded by the "
              "generator's hierarchy size and shapes.")
LEVEL_NOTE = "Trusted base: reference evaluator, printer, worker harness, Hypothesis."
TECHNIQUE = "property-based testing (Hypothesis): model-based oracle over generated class hierarchies"


def cases(tier):
    return 4000 if tier == "quick" else 100000


def strategy(hazards):
    # the second component drives pbt/lang/shadow.py globalize: pairs of integers, each pair renames one variable,
    # parameter or class of the program to the name of a builtin class the program does not mention (empty: no rename)
    # (known findings: with their hazards on, Object and Error are not among the names handed out)
    banned = [n for n, h in (("Object", implicit.HAZ_OBJECT), ("Error", implicit.HAZ_ERROR)) if h in hazards]
    return st.tuples(gen.class_program(gen.Cfg(max_depth=3, p_confuse=0, hazards=hazards)),
                     st.one_of(st.just([]), st.just([]), st.just([]), st.lists(st.integers(0, 1000), min_size=2, max_size=4)),
                     st.just(banned))


def run_case(case, ctx):
    renamed = []
    if isinstance(case, tuple) and len(case) == 2 and case[0] == "implicit":
        return implicit.run_scenario(case[1], ctx)
    if isinstance(case, tuple) and len(case) == 3 and isinstance(case[0], list):
        prog, gpicks, banned = case
        if gpicks:
            prog, renamed = shadow.globalize(prog, gpicks, printer.to_source(prog)[0], banned)
    else:
        prog = case  # (replay files written before the renaming pass existed hold the bare program)
    src, lines = printer.to_source(prog)
    res, why = run_model(prog, lines)
    if res is None:
        return Outcome(discarded=why)
    labels = sorted(res.labels) + ["outcome:" + res.outcome] + (["global-name-shadowed"] if renamed else []) + \
        ["shadows:" + t for (_o, t) in renamed if t == "Object"]
    nontrivial = "inherit" in res.labels and bool(res.labels & {"override_dispatch", "inherited_field", "shadow_call"})
    if nontrivial:
        labels.append("nontrivial")
    runs = 0
    fail = None
    for variant in ("dbg", "rel"):
        r = ctx.worker(variant).run(src)
        runs += 1
        fail = compare_model(PROPERTY, res, r, src, variant)
        if fail is not None:
            break
    return Outcome(key=src, nontrivial=nontrivial, labels=labels, failure=fail, sample=short(src, 1200), runs=runs)


def extra(tier, ctx):
    return [implicit.run_scenario(n, ctx) for n in implicit.scenarios_of(PROPERTY)]
