"""C03 Classes: construction, fields, dispatch, inheritance, super and bound methods."""
from hypothesis import strategies as st

from ..lang import gen, printer
from ..oracle import compare_model
from ..runner import Outcome
from .common import run_model, short

PROPERTY = "C03"
LEVEL = "exploration"
VARIANTS = ("dbg", "rel")
RULE = ("Hypothesis draws 1-5 classes (inheritance depth <= 4, explicit and implicit parents), initialisers assigning "
        "drawn fields in drawn order via self.x and @x (some only inside if/else), overriding patterns over a shared "
        "method-name pool, super.m() (fused) and super.m(a) (unfused) calls also through closures, static methods, "
        "lambda fields that shadow methods, methods returning closures over self; then instances of several classes "
        "reach shared call-site helper functions (invoke, invoke with args, get, set, get-then-call, bound method "
        "passed around) in a drawn order, plus undeclared property read/write/invoke inside try. Output is compared "
        "with the reference evaluator on the debug and release workers. Non-trivial: >= 2 classes related by "
        "inheritance and (an overridden method dispatched, or an inherited field accessed from a subclass method, or "
        "a shadowing field called), judged from the model's trace; distinct by program text.")
ASSUMPTIONS = ["reference evaluator's class model: ordered field sets collected from the text of init of the class "
               "and its ancestors, single inheritance, lexical super, statics on the class only, field-shadows-method",
               "touching an undeclared field or method must raise PropertyError (read, write and invoke alike)"]
GATES = {"inherit": 0.40, "nontrivial": 0.25}
LEVEL_TEXT = ("Generated-program search against an independent class/dispatch model; finds dispatch, field layout, "
              "super and bound-method violations in generated hierarchies and call-site histories; bounded by the "
              "generator's hierarchy size and shapes.")
LEVEL_NOTE = "Trusted base: reference evaluator, printer, worker harness, Hypothesis."
TECHNIQUE = "property-based testing (Hypothesis): model-based oracle over generated class hierarchies"


def cases(tier):
    return 4000 if tier == "quick" else 200000


def strategy(hazards):
    return gen.class_program(gen.Cfg(max_depth=3, p_confuse=0, hazards=hazards))


def run_case(case, ctx):
    prog = case
    src, lines = printer.to_source(prog)
    res, why = run_model(prog, lines)
    if res is None:
        return Outcome(discarded=why)
    labels = sorted(res.labels) + ["outcome:" + res.outcome]
    nontrivial = "inherit" in res.labels and bool(res.labels & {"override_dispatch", "inherited_field", "shadow_call"})
    if nontrivial:
        labels.append("nontrivial")
    runs = 0
    fail = None
    for variant in ("dbg", "rel"):
        r = ctx.worker(variant).run(src)
        runs += 1
        fail = compare_model(PROPERTY, res, r, src, variant)
        if fail is not None:
            break
    return Outcome(key=src, nontrivial=nontrivial, labels=labels, failure=fail, sample=short(src, 1200), runs=runs)
