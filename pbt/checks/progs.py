"""Program sources shared by the differential checks (C05, C13, C14, C20): every generator profile
plus the repository's fixture scripts."""
import glob
import os

from hypothesis import strategies as st

from ..build import repo_path
from ..lang import gen, printer

_fixture_cache = {}


def fixture_files():
    root = repo_path()
    if root not in _fixture_cache:
        files = []
        for sub in ("laythe_vm/fixture/language", "laythe_vm/fixture/std_lib"):
            files.extend(sorted(glob.glob(os.path.join(root, sub, "**", "*.lay"), recursive=True)))
        keep = []
        for f in files:
            try:
                text = open(f, encoding="utf-8").read()
            except (OSError, UnicodeDecodeError):
                continue
            if len(text) > 6000:
                continue
            # scripts that need sibling files, the real file system, the clock or randomness are not deterministic
            # inputs for a differential oracle
            if "import self" in text or "std.io.fs" in text or "clock" in text or "rand" in text or "std.env" in text \
                    or "stdin" in text:
                continue
            keep.append(os.path.relpath(f, root))
        _fixture_cache[root] = keep
    return _fixture_cache[root]


def profiles(hazards, include=("core", "class", "exc", "closure", "coll", "alias", "strings", "fiber", "modules")):
    cfgc = gen.Cfg(p_confuse=1, hazards=hazards)
    cfg3 = gen.Cfg(max_depth=3, p_confuse=0, exceptions=True, hazards=hazards)
    table = {
        "core": lambda: gen.program(cfgc),
        "class": lambda: gen.class_program(cfg3),
        "exc": lambda: gen.exc_program(cfg3),
        "closure": lambda: gen.closure_program(cfg3),
        "coll": lambda: gen.coll_program(cfg3) if hasattr(gen, "coll_program") else None,
        "alias": lambda: gen.alias_program(cfg3) if hasattr(gen, "alias_program") else None,
        "strings": lambda: gen.strings_program(cfg3) if hasattr(gen, "strings_program") else None,
        "fiber": lambda: gen.fiber_program(cfg3) if hasattr(gen, "fiber_program") else None,
    }
    out = []
    for name in include:
        f = table.get(name)
        s = f() if f else None
        if s is not None:
            out.append(s.map(lambda p, n=name: ("gen", n, p)))
    return out


def program_cases(hazards, fixtures=True, include=None):
    """Strategy of ("gen", profile, ast) | ("file", index)."""
    ss = profiles(hazards, include) if include else profiles(hazards)
    if fixtures:
        ss.append(st.integers(0, 100000).map(lambda i: ("file", i)))
    return st.one_of(*ss)


def source_of(pc):
    """-> (source text, files dict or None, label) or (None, None, reason)."""
    if pc[0] == "text":
        return pc[2], None, "profile:" + pc[1]
    if pc[0] == "gen":
        try:
            return printer.to_source(pc[2])[0], None, "profile:" + pc[1]
        except ValueError:
            return None, None, "unprintable"
    files = fixture_files()
    if not files:
        return None, None, "no-fixtures"
    path = files[pc[1] % len(files)]
    try:
        return open(os.path.join(repo_path(), path), encoding="utf-8").read(), None, "profile:fixture"
    except OSError:
        return None, None, "missing-fixture"
