"""C14 Both value representations implement the same language."""
from hypothesis import strategies as st

from ..lang import gen, printer
from ..oracle import compare_model, same_behaviour
from ..runner import Outcome
from . import progs
from .common import run_model, short

PROPERTY = "C14"
LEVEL = "exploration"
VARIANTS = ("dbg", "nan-dbg", "rel", "nan-rel")
RULE = ("Programs of every generator profile, the repository's deterministic fixture scripts and a numeric profile "
        "(variables bound to special doubles reached by arithmetic: -0 via -0 and 0*-1, +-inf via /0 and overflow, NaN "
        "via 0/0, inf-inf and -NaN, subnormals and underflow, 2^53+1, 0.1+0.2; then every comparison operator, map "
        "set/has/get/len/[] with special keys, list/tuple has/index, interpolation, floor/ceil/round/str). Each program "
        "runs on the tagged-enum and on the NaN-boxed build (debug pair or release pair, drawn); outcome, output and "
        "error class must be identical, and for modelled profiles equal to the reference evaluator (IEEE: 0 == -0, "
        "NaN != NaN). Non-trivial: the model evaluated >= 1 equality / ordering / key operation on a special double "
        "(numeric profile), or the program executed >= 5 operators/calls (other profiles); distinct by program text.")
ASSUMPTIONS = ["reference evaluator uses python floats (IEEE binary64) and Rust's shortest round-trip formatting",
               "NaN used as a map key is compared between the builds but not against the model (the tree normalises NaN "
               "keys to one sentinel, IEEE says it can never be found again: unspecified)"]
GATES = {"profile:numeric": 0.12}
LEVEL_TEXT = ("Differential search between the two builds of the same source, with the model as third voice; finds "
              "representation-dependent behaviour in the programs generated.")
LEVEL_NOTE = "Trusted base: the four worker builds come from the same tree with/without the nan_boxing feature."
TECHNIQUE = "property-based testing (Hypothesis): differential oracle across build configurations + model"


def cases(tier):
    return 2400 if tier == "quick" else 120000


def strategy(hazards):
    numeric = gen.numeric_program().map(lambda p: ("gen", "numeric", p))
    # .map keeps one_of from flattening the profile alternatives into its own: half numeric programs
    others = progs.program_cases(hazards)
    return st.tuples(st.one_of(numeric, numeric.map(lambda p: p), others.map(lambda p: p), others.map(lambda p: p)), st.integers(0, 1))


def run_case(case, ctx):
    pc, vsel = case
    src, files, label = progs.source_of(pc)
    if src is None:
        return Outcome(discarded=label)
    pair = ("dbg", "nan-dbg") if vsel == 0 else ("rel", "nan-rel")
    a = ctx.worker(pair[0]).run(src)
    if a.get("outcome") == "compile_error":
        return Outcome(discarded="compile-error")
    b = ctx.worker(pair[1]).run(src)
    labels = [label, "pair:" + pair[0]]
    fail = same_behaviour(PROPERTY, a, b, src, "enum values (%s)" % pair[0], "nan boxed values (%s)" % pair[1], "repr")
    nontrivial = a.get("instr", 0) >= 30
    if fail is None and pc[0] == "gen":
        res, why = run_model(pc[2], None)
        if res is not None:
            fail = compare_model(PROPERTY, res, a, src, pair[0])
            labels.append("model-checked")
            if pc[1] == "numeric":
                nontrivial = res.counts.get("op", 0) >= 1
        else:
            labels.append("model-skipped")
    return Outcome(key=src, nontrivial=nontrivial, labels=labels, failure=fail, sample=short(src, 500), runs=2)
