"""C08 Fibers make progress; deadlock is reported exactly when nothing can run."""
from hypothesis import strategies as st

from .. import kpn, kpn_many
from .. import worker as W
from ..oracle import crash_failure
from ..runner import Outcome
from . import kpncommon as K
from .c07 import labels_of, run_many

PROPERTY = "C08"
LEVEL = "exploration"
VARIANTS = ("dbg", "rel")
RULE = ("The process networks of C07, half of them unbalanced on purpose (a receive nobody feeds, a value nobody "
        "takes, fewer sends than receives, a launcher that blocks before launching), with launch arguments and "
        "captured variables echoed by each fiber and every fiber finally joined by main. Oracle: the Kahn-style model "
        "gives the determinate final state: 'complete' (main finishes: exit status 0 and every fiber's full history) or "
        "'deadlock' (main blocked with nothing runnable: 'Fatal error deadlock.' on stderr, failing status, and every "
        "fiber's history complete up to the point where nothing can move). A reported deadlock when the model "
        "completes or while some fiber could still move, completion when the model deadlocks, a missing fiber effect, "
        "or exhausting 2000x the model's step count (instruction budget hook, no wall clock) are violations. "
        "Non-trivial: >= 2 fibers and >= 1 blocked operation in the model; distinct by program text. One case in four is "
        "a Mode M network (several senders and receivers on one channel, see C07): whatever the schedule it can "
        "always finish, so anything but a normal completion with every receiver's log printed is a violation.")
ASSUMPTIONS = ["liveness is checked in bounded form: termination within 2000x the model's step count",
               "determinacy of single-writer single-reader networks (see C07)"]
GATES = {"nontrivial": 0.40, "model:complete": 0.10, "model:deadlock": 0.10}
LEVEL_TEXT = ("Model-based search over generated fiber/channel networks deciding the final outcome class and "
              "completeness of effects; bounded liveness only.")
LEVEL_NOTE = "Trusted base: pbt/kpn.py, instruction budget hook, worker harness."
TECHNIQUE = "property-based testing (Hypothesis): model-based oracle (determinate outcome) over generated networks"


def cases(tier):
    return 2400 if tier == "quick" else 96000


def strategy(hazards):
    return st.tuples(st.one_of(kpn.network(False, hazards), kpn.network(True, hazards), kpn.network(True, hazards),
                               kpn_many.many_network(hazards)), st.integers(0, 7))


def run_case(case, ctx):
    net, sel = case
    if net.get("mode") == "M":
        return run_many(PROPERTY, case, ctx, kpn_many.progress_failure)
    fail = None
    runs = 0
    ev = None
    for variant in ("dbg", "rel"):
        ev = K.evaluate(net, ctx, variant, W.EVERY_ALLOC if (sel == 0 and variant == "dbg") else W.NATURAL)
        runs += 1
        if ev["r"].get("outcome") != "budget":
            fail = crash_failure(PROPERTY, ev["r"], ev["src"], variant)
        if fail is None:
            fail = K.progress_failure(PROPERTY, ev)
        if fail is not None:
            break
    m = ev["model"]
    nontrivial = len(net["scripts"]) >= 2 and m.blocked_ops >= 1
    labels = labels_of(net, m) + (["nontrivial"] if nontrivial else [])
    return Outcome(key=ev["src"], nontrivial=nontrivial, labels=labels, failure=fail,
                   sample={"caps": net["caps"], "scripts": [[list(o) for o in s] for s in net["scripts"]]}, runs=runs)
