"""C08 Fibers make progress; deadlock is reported exactly when nothing can run."""
from hypothesis import strategies as st

from .. import kpn, kpn_bulk, kpn_many, kpn_native
from .. import worker as W
from ..oracle import crash_failure
from ..runner import Failure, Outcome, enc
from . import kpncommon as K
from .c07 import labels_of, run_bulk, run_many, run_native

PROPERTY = "C08"
LEVEL = "exploration"
VARIANTS = ("dbg", "rel")
RULE = ("The process networks of C07, half of them unbalanced on purpose (a receive nobody feeds, a value nobody "
        "takes, fewer sends than receives, a launcher that blocks before launching), with launch arguments and "
        "captured variables echoed by each fiber and every fiber finally joined by main. Oracle: the Kahn-style model "
        "gives the determinate final state: 'complete' (main finishes: exit status 0 and every fiber's full history) or "
        "'deadlock' (main blocked with nothing runnable: 'Fatal error deadlock.' on stderr, failing status, and every "
        "fiber's history complete up to the point where nothing can move). A reported deadlock when the model "
        "completes or while some fiber could still move, completion when the model deadlocks, a missing fiber effect, "
        "or exhausting 2000x the model's step count (instruction budget hook, no wall clock) are violations. "
        "Non-trivial: >= 2 fibers and >= 1 blocked operation in the model; distinct by program text. One case in four is "
        "a Mode M network (several senders and receivers on one channel, see C07): whatever the schedule it can "
        "always finish, so anything but a normal completion with every receiver's log printed is a violation. One case in "
        "nine is a Mode B network (one channel of large capacity / traffic, see C07): it always finishes. One in ten is a "
        "Mode N network (one channel end inside a callback run by a native, the other in a fiber that calls helpers and "
        "catches errors, see C07): it always finishes.")
ASSUMPTIONS = ["liveness is checked in bounded form: termination within 2000x the model's step count",
               "determinacy of single-writer single-reader networks (see C07)"]
GATES = {"nontrivial": 0.40, "model:complete": 0.10, "model:deadlock": 0.10}
LEVEL_TEXT = ("Model-based search over generated fiber/channel networks deciding the final outcome class and "
              "completeness of effects; bounded liveness only.")
LEVEL_NOTE = "Trusted base: pbt/kpn.py, instruction budget hook, worker harness."
TECHNIQUE = "property-based testing (Hypothesis): model-based oracle (determinate outcome) over generated networks"


def cases(tier):
    return 2400 if tier == "quick" else 240000


def strategy(hazards):
    pool = [kpn.network(False, hazards), kpn.network(True, hazards), kpn.network(True, hazards), kpn_many.many_network(hazards)]
    return st.tuples(st.integers(0, 9).flatmap(lambda k: kpn_bulk.bulk_network() if k == 5 else (kpn_native.native_network(hazards) if k == 2 else pool[k % 4])), st.integers(0, 7))


def run_case(case, ctx):
    if case and case[0] == "scenario":
        n, s_, o, w = next(x for x in SCENARIOS if x[0] == case[1])
        return run_scenario(n, s_, o, w, ctx)
    net, sel = case
    if net.get("mode") == "M":
        return run_many(PROPERTY, case, ctx, kpn_many.progress_failure)
    if net.get("mode") == "B":
        return run_bulk(PROPERTY, case, ctx, True)
    if net.get("mode") == "N":
        return run_native(PROPERTY, case, ctx, True)
    fail = None
    runs = 0
    ev = None
    for variant in ("dbg", "rel"):
        ev = K.evaluate(net, ctx, variant, W.EVERY_ALLOC if (sel == 0 and variant == "dbg") else W.NATURAL)
        runs += 1
        if ev["r"].get("outcome") != "budget":
            fail = crash_failure(PROPERTY, ev["r"], ev["src"], variant)
        if fail is None:
            fail = K.progress_failure(PROPERTY, ev)
        if fail is not None:
            break
    m = ev["model"]
    nontrivial = len(net["scripts"]) >= 2 and m.blocked_ops >= 1
    labels = labels_of(net, m) + (["nontrivial"] if nontrivial else [])
    return Outcome(key=ev["src"], nontrivial=nontrivial, labels=labels, failure=fail,
                   sample={"caps": net["caps"], "scripts": [[list(o) for o in s] for s in net["scripts"]]}, runs=runs)


# ------------------------------------------------------------------------------------------- hand written scenarios
# Scheduler situations the determinate networks cannot express (a fiber other than the writer closes, a sender is
# parked when the channel closes ...). (name, program, stdout, outcome): outcome "ok" or "deadlock".
SCENARIOS = [
    ("close-with-sync-send-in-flight-24c5a7b",
     "let c = chan(); let d = chan(1);\nfn a(c, d) { c <- 1; print('sent'); d <- 2; }\nfn cl(c) { c.close(); }\n"
     "launch a(c, d); launch cl(c);\nprint(<- c); print(<- d);", "1\nsent\n2\n", "ok"),
    ("producer-consumer-joined-by-main",
     "let a = chan(); let r1 = chan(1); let r2 = chan(1);\nfn p(a, r) { for i in 3.times() { a <- i; } r <- 'p done'; }\n"
     "fn q(a, r) { let s = 0; for i in 3.times() { s = s + (<- a); } r <- s; }\nlaunch p(a, r1); launch q(a, r2);\n"
     "print(<- r1); print(<- r2);", "p done\n3\n", "ok"),
    ("receive-from-closed-drained",
     "let c = chan(2); c <- 1; c <- 2; c.close(); print(<- c); print(<- c); print(<- c);", "1\n2\nnil\n", "ok"),
    ("send-on-closed-raises",
     "let c = chan(1); c.close(); try { c <- 1; print('sent'); } catch e { print('closed'); }", "closed\n", "ok"),
    ("main-blocked-forever", "let c = chan(); print('before'); print(<- c);", "before\n", "deadlock"),
    ("fiber-blocked-main-finishes",
     "let c = chan(); fn f(c) { print(<- c); } launch f(c); print('main done');", "main done\n", "ok"),
]


def run_scenario(name, src, want_out, want, ctx):
    fail = None
    runs = 0
    for variant in ("dbg", "rel"):
        r = ctx.worker(variant).run(src, budget=2_000_000)
        runs += 1
        fail = crash_failure(PROPERTY, r, src, variant) if r.get("outcome") != "budget" else None
        got = "deadlock" if "Fatal error deadlock." in (r.get("stderr") or "") else r.get("outcome")
        if fail is None and (got != want or (r.get("stdout") or "") != want_out):
            fail = Failure("%s/scenario/%s" % (PROPERTY, name),
                           "scenario %s on %s: expected %s with stdout %r, got %s with stdout %r\n%s\n--- source\n%s" %
                           (name, variant, want, want_out, got, r.get("stdout"), (r.get("stderr") or "")[-300:], src),
                           {"source": src, "case": enc(("scenario", name))})
        if fail is not None:
            break
    return Outcome(key="scenario:" + name, nontrivial=True, labels=["scenario"], failure=fail, runs=runs)


def extra(tier, ctx):
    return [run_scenario(n, s_, o, w, ctx) for (n, s_, o, w) in SCENARIOS]


def shrink(case, still_fails):
    """Mode M networks are not shrunk structurally (a network without senders, or whose closer is gone, deadlocks for
    reasons of its own); everything else goes through the generic shrinker."""
    from .. import shrink as _shrink
    if isinstance(case, tuple) and case and isinstance(case[0], dict) and case[0].get("mode") == "M":
        net, sel = case
        best = net
        for key in ("work",):
            cand = dict(best)
            cand[key] = [0] * len(best[key])
            if still_fails((cand, sel)):
                best = cand
        for i in range(len(best["counts"])):
            while best["counts"][i] > 1:
                cand = dict(best)
                cand["counts"] = list(best["counts"])
                cand["counts"][i] -= 1
                if still_fails((cand, sel)):
                    best = cand
                else:
                    break
        return (best, sel)
    return _shrink.shrink(case, still_fails, 1500)
