"""Mode N networks: one side of a channel sits inside a callback that a NATIVE function runs (Iter.map driven by
List.collect, Iter.each, Iter.reduce, Iter.filter), the other side is a launched fiber that calls ordinary helper
functions between its channel operations and may catch errors of its own. While the callback is parked the launched
fiber runs inside the interpreter loop the native started, so whatever that loop keys on (frame counts, handler depths)
meets a fiber it was not started for. One sender, one receiver: the values and the final state are determinate.

net = {"mode": "N", "cap": 0 | n, "n": values, "role": "recv-in-callback" | "send-in-callback", "native": which native
       runs the callback, "cdepth": call depth of the native under main, "pdepth": call depth of the fiber's loop,
       "hdepth": [helper call depth before each channel operation], "catch": [does the fiber catch an error before the
       operation], "starter": fiber launched by a starter fiber instead of main}"""
from hypothesis import strategies as st

from .runner import Failure

NATIVES = ["map-collect", "each", "reduce", "filter-list", "map-list"]


HAZARD_BOTH = "both-channel-ends-in-native-callbacks"


@st.composite
def native_network(draw, hazards=()):
    n = draw(st.integers(1, 4))
    return {"mode": "N", "cap": draw(st.sampled_from([0, 0, 1, 2, 5])), "n": n,
            "role": draw(st.sampled_from(["recv-in-callback", "recv-in-callback", "send-in-callback"])),
            "native": draw(st.sampled_from(NATIVES)),
            "cdepth": draw(st.integers(0, 3)), "pdepth": draw(st.integers(0, 3)),
            "hdepth": [draw(st.integers(0, 4)) for _ in range(n)],
            "catch": [draw(st.integers(0, 3)) == 0 for _ in range(n)],
            "starter": draw(st.integers(0, 3)) == 0,
            # the launched fiber's channel operations sit in a callback of a native of its own (each): two native
            # started interpreter loops are live at once
            "fiber_native": (HAZARD_BOTH not in hazards) and draw(st.integers(0, 3)) == 0}


def _wrap(name, depth, call):
    """fn name_0() { call } fn name_1() { return name_0(); } ... -> (source, name of the outermost)"""
    src = "fn %s_0() {\n%s}\n" % (name, call)
    for d in range(1, depth + 1):
        src += "fn %s_%d() { return %s_%d(); }\n" % (name, d, name, d - 1)
    return src, "%s_%d" % (name, depth)


def build_source(net):
    n = net["n"]
    src = "let ch = %s;\nlet res = chan(1);\nlet caught = 0;\n" % ("chan()" if net["cap"] == 0 else "chan(%d)" % net["cap"])
    src += "fn h_0() { return 1; }\n"
    for d in range(1, 5):
        src += "fn h_%d() { h_%d(); return %d; }\n" % (d, d - 1, d + 1)
    src += "fn risky() { raise Error('boom'); }\n"
    items = "[%s]" % ", ".join(str(i) for i in range(n))
    fiber_ops = ""
    recv_in_cb = net["role"] == "recv-in-callback"
    if net.get("fiber_native"):
        # (the same operations for every element; helper depth and catching taken from the first)
        fiber_ops += "  %s.iter().each(|i| {\n    h_%d();\n" % (items, net["hdepth"][0])
        if net["catch"][0]:
            fiber_ops += "    try { risky(); } catch e: Error { caught = caught + 1; }\n"
        fiber_ops += ("    ch <- i * 10 + 7;\n" if recv_in_cb else "    log.push(<- ch);\n") + "  });\n"
    for i in range(0 if net.get("fiber_native") else n):
        fiber_ops += "  h_%d();\n" % net["hdepth"][i]
        if net["catch"][i]:
            fiber_ops += "  try { risky(); } catch e: Error { caught = caught + 1; }\n"
        fiber_ops += ("  ch <- %d;\n" % (i * 10 + 7)) if recv_in_cb else "  log.push(<- ch);\n"
    if recv_in_cb:
        fsrc, fname = _wrap("fib", net["pdepth"], fiber_ops + "  res <- 'fiber done';\n")
        cb_val = "<- ch"
    else:
        fsrc, fname = _wrap("fib", net["pdepth"], "  let log = [];\n" + fiber_ops + "  res <- log;\n")
        cb_val = "ch <- x * 10 + 7"
    src += fsrc
    nat = net["native"]
    if nat == "map-collect":
        body = "  let got = %s.iter().map(|x| %s).into(List.collect);\n  print(got);\n" % (items, cb_val)
    elif nat == "map-list":
        body = "  let got = %s.iter().map(|x| %s).list();\n  print(got);\n" % (items, cb_val)
    elif nat == "each":
        body = "  let got = [];\n  %s.iter().each(|x| { got.push(%s); });\n  print(got);\n" % (items, cb_val)
    elif nat == "reduce":
        body = "  let got = %s.iter().reduce(0, |a, x| a + (%s));\n  print(got);\n" % (items, cb_val)
    else:
        body = "  let got = %s.iter().filter(|x| (%s) > 0).list();\n  print(got);\n" % (items, cb_val)
    csrc, cname = _wrap("con", net["cdepth"], body)
    src += csrc
    if net["starter"]:
        src += "fn starter() { launch %s(); }\nlaunch starter();\n" % fname
    else:
        src += "launch %s();\n" % fname
    src += "%s();\nprint(<- res);\nprint(caught);\nprint('END');\n" % cname
    return src


def _fmt(vals):
    return "[" + ", ".join(str(v) for v in vals) + "]"


def expected(net):
    n = net["n"]
    vals = [i * 10 + 7 for i in range(n)]
    nat = net["native"]
    if nat == "reduce":
        got = str(sum(vals))
    elif nat == "filter-list":
        got = _fmt(list(range(n)))
    else:
        got = _fmt(vals)
    second = "fiber done" if net["role"] == "recv-in-callback" else _fmt(vals)
    caught = (n if net["catch"][0] else 0) if net.get("fiber_native") else sum(1 for c in net["catch"] if c)
    return "%s\n%s\n%d\nEND\n" % (got, second, caught)


def _sig(prop, what):
    if prop.endswith("/both-ends"):
        return "%s/native-callback-both-ends/%s" % (prop[:-len("/both-ends")], what)
    return "%s/native-callback/%s" % (prop, what)


def failure(prop, net, r, src, progress_only=False):
    out = r.get("stdout") or ""
    info = {"source": src}
    if net.get("fiber_native"):
        prop = prop + "/both-ends"  # (signatures of the doubly nested shape are kept apart: see KNOWN_FINDINGS.txt)
    desc = "%s\nvm outcome %s %s\nstdout: %s\nstderr: %s\n--- source\n%s" % (
        {k: v for k, v in net.items() if k != "mode"}, r.get("outcome"), r.get("code"), out[-300:],
        (r.get("stderr") or "").strip()[-400:], src)
    if "Fatal error deadlock." in (r.get("stderr") or ""):
        return Failure(_sig(prop, "spurious-deadlock"), "deadlock reported although every fiber can finish\n" + desc, info)
    if r.get("outcome") == "budget":
        return Failure(_sig(prop, "spins"), "the network exceeded its step budget\n" + desc, info)
    if r.get("outcome") != "ok" or not out.endswith("END\n"):
        return Failure(_sig(prop, "unexpected-outcome"), "unexpected outcome\n" + desc, info)
    if progress_only:
        return None
    want = expected(net)
    if out != want:
        return Failure(_sig(prop, "output"), "expected\n%s\n%s" % (want, desc), info)
    return None
