"""Build and run the libFuzzer target (cargo-fuzz) for the front end."""
import glob
import os
import re
import shutil
import subprocess
import time

from . import build as _build

VERIF = _build.VERIF

DICT = ["class", "fn", "let", "if", "else", "for", "in", "while", "return", "break", "continue", "try", "catch", "raise",
        "launch", "chan", "import", "export", "as", "self", "super", "static", "nil", "true", "false", "trait", "type",
        "${", "\\\"", "'", "@", "|", "||", "&&", "<-", "->", "==", "!=", "<=", ">=", "+=", "-=", "*=", "/=", "//", "\\\\n",
        "\\\\u{", "init", "print", "Error", ".iter()", ".len()", "1e", "0.5"]


def fuzz_root(repo=None):
    repo = repo or _build.repo_path()
    return os.path.join(_build.build_dir(repo), "fuzzroot")


def prepare(repo=None):
    repo = repo or _build.repo_path()
    root = fuzz_root(repo)
    os.makedirs(os.path.join(root, "src"), exist_ok=True)
    os.makedirs(os.path.join(root, "fuzz", "fuzz_targets"), exist_ok=True)

    def write(path, text):
        if not os.path.exists(path) or open(path).read() != text:
            with open(path, "w") as f:
                f.write(text)

    write(os.path.join(root, "Cargo.toml"), "[package]\nname = \"lyfuzz\"\nversion = \"0.0.0\"\nedition = \"2021\"\n\n"
                                             "[workspace]\nmembers = [\".\"]\nexclude = [\"fuzz\"]\n")
    write(os.path.join(root, "src", "lib.rs"), "")
    tmpl = open(os.path.join(VERIF, "harness", "fuzz", "Cargo.toml.in")).read()
    write(os.path.join(root, "fuzz", "Cargo.toml"), tmpl.replace("@REPO@", repo).replace("@VERIF@", VERIF))
    src = open(os.path.join(VERIF, "harness", "fuzz", "fuzz_compile.rs")).read()
    write(os.path.join(root, "fuzz", "fuzz_targets", "fuzz_compile.rs"), src.replace("@VERIF@", VERIF))
    lock = os.path.join(root, "fuzz", "Cargo.lock")
    if not os.path.exists(lock):
        shutil.copy(os.path.join(repo, "Cargo.lock"), lock)
    write(os.path.join(root, "fuzz", "laythe.dict"), "".join('"%s"\n' % d for d in DICT))
    return root


def target_dir(repo=None):
    repo = repo or _build.repo_path()
    return os.path.join(VERIF, "target", _build._tag(repo), "fuzz")


def build(repo=None):
    """Build the fuzz target (debug assertions on, ASan off: the code under test is the safe
    Rust front end; memory errors of the unsafe runtime are the worker allocator's job)."""
    root = prepare(repo)
    env = dict(os.environ)
    env["CARGO_NET_OFFLINE"] = "true"
    env.setdefault("RUSTFLAGS", "")
    cmd = ["cargo", "+nightly", "fuzz", "build", "--fuzz-dir", os.path.join(root, "fuzz"), "--target-dir",
           target_dir(repo), "-s", "none", "fuzz_compile"]
    t0 = time.time()
    p = subprocess.run(cmd, cwd=root, env=env, stdout=subprocess.PIPE, stderr=subprocess.STDOUT, text=True)
    if p.returncode != 0:
        raise RuntimeError("fuzz build failed:\n" + p.stdout[-4000:])
    return time.time() - t0


def binary(repo=None):
    hits = glob.glob(os.path.join(target_dir(repo), "*", "release", "fuzz_compile"))
    if not hits:
        raise RuntimeError("fuzz binary not found")
    return hits[0]


def run(runs, seed, jobs=16, max_len=2048, repo=None, max_total_time=None, corpus_from=None):
    """Run a campaign bounded by -runs (per job). Returns a dict with stats and crashes."""
    repo = repo or _build.repo_path()
    root = prepare(repo)
    exe = binary(repo)
    work = os.path.join(VERIF, "out", "fuzz-%d" % os.getpid())
    corpus = os.path.join(work, "corpus")
    arts = os.path.join(work, "artifacts") + "/"
    shutil.rmtree(work, ignore_errors=True)
    os.makedirs(corpus)
    os.makedirs(arts)
    n_seed = 0
    for sub in ("laythe_vm/fixture/language", "laythe_vm/fixture/std_lib"):
        for f in sorted(glob.glob(os.path.join(repo, sub, "**", "*.lay"), recursive=True)):
            if os.path.getsize(f) <= max_len:
                shutil.copy(f, os.path.join(corpus, "seed-%04d.lay" % n_seed))
                n_seed += 1
    if corpus_from and os.path.isdir(corpus_from):
        for f in sorted(os.listdir(corpus_from)):
            shutil.copy(os.path.join(corpus_from, f), os.path.join(corpus, "kept-" + f))
    per_job = max(1, runs // jobs)
    cmd = [exe, corpus, "-runs=%d" % per_job, "-jobs=%d" % jobs, "-workers=%d" % jobs, "-seed=%d" % (seed + 1),
           "-max_len=%d" % max_len, "-len_control=0", "-dict=" + os.path.join(root, "fuzz", "laythe.dict"),
           "-artifact_prefix=" + arts, "-print_final_stats=1", "-timeout=25", "-rss_limit_mb=4096", "-close_fd_mask=3"]
    if max_total_time:
        cmd.append("-max_total_time=%d" % max_total_time)
    t0 = time.time()
    p = subprocess.run(cmd, cwd=work, stdout=subprocess.PIPE, stderr=subprocess.STDOUT, text=True)
    wall = time.time() - t0
    execs = 0
    cov = 0
    logs = sorted(glob.glob(os.path.join(work, "fuzz-*.log")))
    tails = []
    for lf in logs:
        text = open(lf, errors="replace").read()
        m = re.search(r"stat::number_of_executed_units:\s*(\d+)", text)
        if m:
            execs += int(m.group(1))
        for m in re.finditer(r"cov: (\d+)", text):
            cov = max(cov, int(m.group(1)))
        tails.append(text[-1500:])
    crashes = []
    for f in sorted(os.listdir(arts)):
        path = os.path.join(arts, f)
        data = open(path, "rb").read()
        crashes.append({"file": f, "kind": f.split("-")[0], "data": data})
    result = {"execs": execs, "cov": cov, "wall_s": wall, "seed_files": n_seed, "jobs": jobs, "runs_per_job": per_job,
              "crashes": crashes, "returncode": p.returncode, "log_tail": tails[:2],
              "corpus_size": len(os.listdir(corpus))}
    shutil.rmtree(work, ignore_errors=True)
    return result


if __name__ == "__main__":
    import sys
    if len(sys.argv) > 1 and sys.argv[1] == "build":
        print("fuzz target built in %.1fs" % build())
    else:
        print("built in %.1fs" % build())
        r = run(int(sys.argv[1]) if len(sys.argv) > 1 else 16000, 0)
        r["crashes"] = [(c["file"], c["data"][:200]) for c in r["crashes"]]
        print(r)
