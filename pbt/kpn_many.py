"""Mode M process networks for C07 / C08: several senders and several receivers on ONE channel.

Such a network is not determinate (which receiver gets which value depends on the schedule), so the
oracle is a validity predicate over what the receivers logged instead of one expected history:

  * every value received was sent, none is received twice (across all receivers),
  * within one receiver's log the values of one sender appear in sending order (a channel is FIFO),
  * when the run completes, the union of the logs is exactly the set of values sent,
  * and the run does complete: senders can always finish while receivers drain, the channel is closed
    once the last sender is done, every receiver then sees the buffered values followed by nil.

Program shape:

    let data = chan(CAP); let done = chan(S); let res0 = chan(1); ...
    let finished = 0;
    fn sender(id, k) { k times: data <- id*1000+i [work]; finished += 1;
                       [closer=last-sender: if finished == S { data.close(); }]  done <- id; }
    fn receiver(id, res) { let log = []; loop { let v = <- data; if v == nil break; log.push(v); } res <- log; }
    launches in a drawn order (some from inside a starter fiber); main takes S dones
    [closer=main: data.close()], then prints each receiver's log.
"""
import re

from hypothesis import strategies as st

from .runner import Failure

HAZARD_CLOSE = "close-by-non-sender-with-receiver"

N = lambda x: ("num", float(x))  # noqa: E731
V = lambda n: ("var", n)  # noqa: E731
S_ = lambda s: ("str", s)  # noqa: E731


@st.composite
def many_network(draw, hazards=()):
    ns = draw(st.integers(1, 3))
    nr = draw(st.integers(1, 3))
    cap = draw(st.sampled_from([0, 0, 1, 2, 3, 5]))
    counts = [draw(st.integers(1, 4)) for _ in range(ns)]
    order = draw(st.permutations([("s", i) for i in range(ns)] + [("r", j) for j in range(nr)]))
    # known finding: close() by a fiber that never used the channel does not wake parked receivers, so with the
    # hazard on the channel is closed by the sender that finishes last instead of by main
    closer = "last-sender" if HAZARD_CLOSE in hazards else draw(st.sampled_from(["last-sender", "main"]))
    work = [draw(st.integers(0, 2)) for _ in range(ns + nr)]
    nested = draw(st.integers(0, 3)) == 0  # launches happen inside a starter fiber
    as_arg = draw(st.booleans())  # the data channel is passed as an argument instead of captured
    boxed = draw(st.integers(0, 2)) == 0  # values travel boxed in fresh lists (heap objects)
    # early close: one of the receivers closes the channel after its q-th value while senders may still be sending (a
    # value already handed over is still delivered, later sends are refused with an error the sender catches)
    early = None
    if draw(st.integers(0, 2)) == 0:
        # [closing receiver, after how many values, does it stop receiving afterwards (only with another receiver left
        # to drain the channel)]
        # ...; does it make a round trip with a helper fiber right after closing (so that it parks on another channel
        # while values may still sit in the closed one)]
        early = [draw(st.integers(0, nr - 1)), draw(st.integers(1, 3)), nr >= 2 and draw(st.booleans()), draw(st.booleans())]
    return {"mode": "M", "boxed": boxed, "early": early, "ns": ns, "nr": nr, "cap": cap, "counts": counts, "order": [list(o) for o in order],
            "closer": closer, "work": work, "nested": nested, "as_arg": as_arg}


def call(f, *args):
    return ("call", V(f) if isinstance(f, str) else f, list(args))


def build_program(net):
    ns, nr = net["ns"], net["nr"]
    data = V("d") if net["as_arg"] else V("data")
    early = net.get("early")
    prog = [("let", "data", call("chan", N(net["cap"])) if net["cap"] else call("chan")),
            ("let", "done", call("chan", N(ns))),
            ("let", "finished", N(0)),
            ("let", "sink", N(0)),
            ("let", "clock", N(0)),
            ("fn", "tick", [], [("expr", ("assign", V("clock"), ("bin", "+", V("clock"), N(1)))), ("return", V("clock"))])]
    for j in range(nr):
        prog.append(("let", "res%d" % j, call("chan", N(1))))
    work = ("for", "w", ("call", ("prop", V("wk"), "times"), []), [("expr", ("assign", V("sink"), ("bin", "+", V("sink"), N(1))))])
    value = ("bin", "+", ("bin", "*", V("id"), N(1000)), V("i"))
    payload = ("list", [value]) if net.get("boxed") else value

    def line(who, what, val=None):
        parts = [who, ("var", "id"), " " + what + " "] + ([val, " "] if val is not None else []) + ["@", call("tick")]
        return ("print", ("interp", parts))
    sbody = [("let", "i", N(0)), ("let", "open", ("true",)),
             ("while", ("bin", "&&", V("open"), ("bin", "<", V("i"), V("k"))), [
                 ("expr", ("assign", V("i"), ("bin", "+", V("i"), N(1)))),
                 line("S", "trying", value),
                 ("try", [("expr", ("send", data, payload)), line("S", "sent", value)],
                  [("e", None, [line("S", "refused", value), ("expr", ("assign", V("open"), ("false",)))])]),
                 work]),
             ("expr", ("assign", V("finished"), ("bin", "+", V("finished"), N(1))))]
    # (a second close raises ChannelError: with an early close the regular one is wrapped)
    def close_stmt(ch):
        c = ("expr", ("call", ("prop", ch, "close"), []))
        return ("try", [c], [("ce", None, [])]) if early else c
    if net["closer"] == "last-sender":
        sbody.append(("if", ("bin", "==", V("finished"), N(ns)), [close_stmt(data)], None))
    sbody.append(("expr", ("send", V("done"), V("id"))))
    prog.append(("fn", "sender", ["id", "k", "wk"] + (["d"] if net["as_arg"] else []), sbody))
    rbody = [("let", "log", ("list", [])),
             ("while", ("true",), [
                 ("let", "v", ("recv", data)),
                 ("if", ("bin", "==", V("v"), ("nil",)), [("break",)], None),
                 ("expr", ("call", ("prop", V("log"), "push"), [("index", V("v"), N(0)) if net.get("boxed") else V("v")])),
                 line("R", "got", ("index", V("v"), N(0)) if net.get("boxed") else V("v")),
                 ] + ([("if", ("bin", "&&", ("bin", "==", V("id"), N(early[0])),
                               ("bin", "==", ("call", ("prop", V("log"), "len"), []), N(early[1]))),
                        # (a round trip before the close lets a parked sender put its next value into the channel, one
                        # after it makes the closer park elsewhere while that value is still there)
                        ([("expr", ("send", V("ping"), V("id"))), ("let", "pg0", ("recv", V("pong")))] if len(early) > 3 and early[3] else [])
                        + [("try", [("expr", ("call", ("prop", data, "close"), [])), line("R", "closed")], [("ce", None, [])])]
                        + ([("expr", ("send", V("ping"), V("id"))), ("let", "pg", ("recv", V("pong")))] if len(early) > 3 and early[3] else [])
                        + ([("break",)] if len(early) > 2 and early[2] else []),
                        None)] if early else []) + [
                 ("if", ("bin", ">", ("call", ("prop", data, "len"), []), ("call", ("prop", data, "capacity"), [])),
                  [("print", S_("CAPACITY EXCEEDED"))], None),
                 work]),
             ("expr", ("send", V("res"), V("log")))]
    prog.append(("fn", "receiver", ["id", "res", "wk"] + (["d"] if net["as_arg"] else []), rbody))
    launches = []
    if early and len(early) > 3 and early[3]:
        prog.append(("let", "ping", call("chan")))
        prog.append(("let", "pong", call("chan")))
        prog.append(("fn", "helper", [], [("expr", ("send", V("pong"), ("recv", V("ping")))),
                                          ("expr", ("send", V("pong"), ("recv", V("ping"))))]))
        prog.append(("launch", call("helper")))
    for kind, i in net["order"]:
        extra = [V("data")] if net["as_arg"] else []
        if kind == "s":
            launches.append(("launch", call("sender", N(i + 1), N(net["counts"][i]), N(net["work"][i]), *extra)))
        else:
            launches.append(("launch", call("receiver", N(i), V("res%d" % i), N(net["work"][ns + i]), *extra)))
    if net["nested"]:
        prog.append(("fn", "starter", [], launches))
        prog.append(("launch", call("starter")))
    else:
        prog.extend(launches)
    prog.append(("let", "n", N(0)))
    prog.append(("while", ("bin", "<", V("n"), N(ns)), [("expr", ("recv", V("done"))),
                                                          ("expr", ("assign", V("n"), ("bin", "+", V("n"), N(1))))]))
    if net["closer"] == "main":
        prog.append(close_stmt(V("data")))
    for j in range(nr):
        prog.append(("print", ("interp", ["R%d " % j, ("recv", V("res%d" % j))])))
    prog.append(("print", S_("END")))
    return prog


LINE = re.compile(r"^R(\d+) \[(.*)\]$")


def parse(stdout):
    logs, stray = {}, []
    for line in stdout.split("\n"):
        if not line:
            continue
        m = LINE.match(line)
        if m:
            body = m.group(2).strip()
            try:
                logs[int(m.group(1))] = [int(float(x)) for x in body.split(",")] if body else []
            except ValueError:
                stray.append(line)
        else:
            stray.append(line)
    return logs, stray


EVENT = re.compile(r"^([SR])(\d+) (trying|sent|refused|got|closed) (?:(-?\d+) )?@(\d+)$")


def events(stray):
    """-> (list of (who, id, what, value or None, clock), other lines)"""
    ev, rest = [], []
    for line in stray:
        m = EVENT.match(line)
        if m:
            ev.append((m.group(1), int(m.group(2)), m.group(3), int(m.group(4)) if m.group(4) is not None else None, int(m.group(5))))
        else:
            rest.append(line)
    return ev, rest


def sent_values(net):
    return [(i + 1) * 1000 + k for i in range(net["ns"]) for k in range(1, net["counts"][i] + 1)]


def describe(net, r, logs):
    return ("senders %s, receivers %d, capacity %d, closer %s, early close %s\nvm outcome %s %s, logs %s\nstderr: %s" %
            (net["counts"], net["nr"], net["cap"], net["closer"], net.get("early"), r.get("outcome"), r.get("code"), logs,
             (r.get("stderr") or "").strip()[-300:]))


def safety_failure(prop, net, r, src):
    """C07: no value lost among those delivered, none duplicated, invented or reordered."""
    logs, stray = parse(r.get("stdout") or "")
    info = {"source": src}
    sent = set(sent_values(net))
    if any("CAPACITY EXCEEDED" in l for l in stray):
        return Failure("%s/many/capacity-exceeded" % prop, "the channel held more values than its capacity\n%s\n--- source\n%s" %
                       (describe(net, r, logs), src), info)
    seen = set()
    for j, log in sorted(logs.items()):
        last = {}
        for v in log:
            if v not in sent:
                return Failure("%s/many/invented-value" % prop, "receiver %d logged %r which nobody sent\n%s\n--- source\n%s" %
                               (j, v, describe(net, r, logs), src), info)
            if v in seen:
                return Failure("%s/many/duplicated-value" % prop, "value %d was received twice\n%s\n--- source\n%s" %
                               (v, describe(net, r, logs), src), info)
            seen.add(v)
            s = v // 1000
            if last.get(s, 0) > v:
                return Failure("%s/many/reordered" % prop, "receiver %d got %d after %d from the same sender\n%s\n--- source\n%s" %
                               (j, v, last[s], describe(net, r, logs), src), info)
            last[s] = v
    ev, stray = events(stray)
    clock = {}
    for (who, i, what, v, t) in ev:
        clock.setdefault((what, v), t)
    closed_at = min([t for (who, i, what, v, t) in ev if what == "closed"], default=None)
    done_ok = set(v for (who, i, what, v, t) in ev if what == "sent")
    refused = set(v for (who, i, what, v, t) in ev if what == "refused")
    for v in sorted(seen & refused):
        return Failure("%s/many/refused-value-delivered" % prop, "the send of %d raised, yet the value was received\n%s\n--- source\n%s" %
                       (v, describe(net, r, logs), src), info)
    if closed_at is not None:
        for (who, i, what, v, t) in ev:
            if what == "sent" and clock.get(("trying", v), 0) > closed_at:
                return Failure("%s/many/send-after-close-accepted" % prop,
                               "the send of %d began (clock %d) after the channel was closed (clock %d) and did not raise\n%s\n--- source\n%s" %
                               (v, clock[("trying", v)], closed_at, describe(net, r, logs), src), info)
    if net["cap"] == 0:
        # rendezvous: a synchronous send returns only after its value was taken
        for v in sorted(done_ok):
            if ("got", v) not in clock or clock[("got", v)] > clock[("sent", v)]:
                return Failure("%s/many/sync-send-returned-before-take" % prop,
                               "synchronous send of %d returned at clock %d but the value was %s\n%s\n--- source\n%s" %
                               (v, clock[("sent", v)], "taken at %d" % clock[("got", v)] if ("got", v) in clock else "not taken yet",
                                describe(net, r, logs), src), info)
    if r.get("outcome") == "ok" and "END" in stray:
        if net.get("early"):
            sent = done_ok  # exactly the values whose send returned normally have to arrive
        if len(logs) != net["nr"]:
            return Failure("%s/many/missing-log" % prop, "the program finished but %d of %d receiver logs were printed\n%s\n--- source\n%s" %
                           (len(logs), net["nr"], describe(net, r, logs), src), info)
        if seen != sent:
            return Failure("%s/many/lost-value" % prop, "the program finished but %s were sent and never received\n%s\n--- source\n%s" %
                           (sorted(sent - seen), describe(net, r, logs), src), info)
    return None


def progress_failure(prop, net, r, src):
    """C08: the network always completes."""
    logs, stray = parse(r.get("stdout") or "")
    info = {"source": src}
    if r.get("outcome") == "ok" and r.get("code") == 0 and "END" in stray:
        return None
    if r.get("outcome") == "runtime_error" and "Fatal error deadlock." not in (r.get("stderr") or "") and \
            any("refused" in l for l in stray):
        pass  # falls through to unexpected-outcome below
    if r.get("outcome") == "budget":
        return Failure("%s/many/spins" % prop, "the network exceeded its step budget\n%s\n--- source\n%s" %
                       (describe(net, r, logs), src), info)
    if "Fatal error deadlock." in (r.get("stderr") or ""):
        suffix = "/close-by-non-sender-leaves-receiver-parked" if net["closer"] == "main" else ""
        return Failure("%s/spurious-deadlock%s" % (prop, suffix) if suffix else "%s/many/spurious-deadlock" % prop,
                       "deadlock reported although every fiber can finish\n%s\n--- source\n%s" %
                       (describe(net, r, logs), src), info)
    return Failure("%s/many/unexpected-outcome" % prop, "unexpected outcome\n%s\n--- source\n%s" %
                   (describe(net, r, logs), src), info)


def budget(net):
    total = sum(net["counts"])
    return max(2_000_000, 2000 * (200 + 60 * total * (1 + max(net["work"])) * (net["ns"] + net["nr"])))
