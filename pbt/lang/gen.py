"""Hypothesis program generators (well scoped, terminating and deterministic by construction).

One class, `G`, threads the generation context; profiles switch construct families on.
Every random choice is a Hypothesis draw so whole programs shrink and replay.
"""
from hypothesis import strategies as st

NUM_LITS = [0.0, 1.0, 2.0, 3.0, 5.0, 7.0, 10.0, 0.5, 2.25, 0.1, 100.0, 255.0, 256.0, 1e15, 9007199254740993.0,
            1e21, 1e308, 1e-7, 5e-324, 123456789.125]
STR_ALPHA = ["a", "b", "c", "z", "A", " ", "0", "7", "é", "λ", "😀", "'", '"', "\\", "$", "_", "\n", "\t", "ß"]
KINDS = ["num", "str", "bool", "nil", "list"]

_int = st.integers


class Var:
    __slots__ = ("name", "kind", "mutable", "params", "ret", "elem")

    def __init__(self, name, kind, mutable=True, params=None, ret=None, elem=None):
        self.name = name
        self.kind = kind  # num str bool nil list fn any
        self.mutable = mutable
        self.params = params  # for fn: list of kinds
        self.ret = ret
        self.elem = elem  # for list: element kind


class Cfg:
    def __init__(self, **kw):
        self.max_depth = 4
        self.max_stmts = 8
        self.p_confuse = 6  # percent
        self.fns = True
        self.lambdas = True
        self.loops = True
        self.closures = False
        self.classes = False
        self.exceptions = False
        self.returns = True
        self.hazards = set()  # hazard tags whose construct must not be generated
        for k, v in kw.items():
            setattr(self, k, v)


class G:
    def __init__(self, draw, cfg=None):
        self.draw = draw
        self.cfg = cfg or Cfg()
        self.scopes = [[]]
        self.counter = 0
        self.in_loop = 0
        self.fn_ret = []  # stack of return kinds of enclosing functions
        self.stmt_budget = 40

    # ------------------------------------------------------------------ primitives
    def i(self, lo, hi):
        return self.draw(_int(lo, hi))

    def pick(self, seq):
        return seq[self.i(0, len(seq) - 1)]

    def chance(self, percent):
        return self.i(0, 99) < percent

    def fresh(self, prefix="v"):
        self.counter += 1
        return "%s%d" % (prefix, self.counter)

    def visible(self, pred=None):
        out = []
        seen = set()
        for sc in reversed(self.scopes):
            for v in reversed(sc):
                if v.name in seen:
                    continue
                seen.add(v.name)
                if pred is None or pred(v):
                    out.append(v)
        return out

    def declare(self, var):
        self.scopes[-1].append(var)
        return var

    # ------------------------------------------------------------------ literals
    def num_lit(self):
        c = self.i(0, 9)
        if c < 6:
            return ("num", float(self.i(0, 12)))
        return ("num", self.pick(NUM_LITS))

    def str_val(self):
        n = self.i(0, 4)
        s = "".join(self.pick(STR_ALPHA) for _ in range(n))
        return s.replace("${", "$")

    def str_lit(self):
        return ("str", self.str_val())

    # ------------------------------------------------------------------ expressions
    def expr(self, kind, depth):
        """An expression whose value is (very likely) of `kind`."""
        if kind == "any":
            kind = self.pick(KINDS)
        if self.chance(self.cfg.p_confuse):
            kind = self.pick(KINDS)
        if depth <= 0:
            return self.leaf(kind)
        m = getattr(self, "expr_" + kind)
        return m(depth)

    def leaf(self, kind):
        vs = self.visible(lambda v: v.kind == kind)
        if vs and self.chance(60):
            return ("var", self.pick(vs).name)
        if kind == "num":
            return self.num_lit()
        if kind == "str":
            return self.str_lit()
        if kind == "bool":
            return ("true",) if self.chance(50) else ("false",)
        if kind == "nil":
            return ("nil",)
        if kind == "list":
            return ("list", [self.leaf(self.pick(["num", "str", "nil", "bool"])) for _ in range(self.i(0, 3))])
        return ("nil",)

    def common(self, kind, depth):
        """Kind preserving constructs available for every kind. Returns None to decline."""
        c = self.i(0, 99)
        if c < 12:
            return ("tern", self.expr("bool", depth - 1), self.expr(kind, depth - 1), self.expr(kind, depth - 1))
        if c < 18:
            vs = self.visible(lambda v: v.kind == kind and v.mutable)
            if vs:
                return ("assign", ("var", self.pick(vs).name), self.expr(kind, depth - 1))
        if c < 26 and self.cfg.fns:
            fs = self.visible(lambda v: v.kind == "fn" and v.ret == kind)
            if fs:
                f = self.pick(fs)
                return self.call_of(f, depth)
        if c < 30:
            return ("group", self.expr(kind, depth - 1))
        if c < 34:
            # short circuit operators yield an operand
            if kind in ("num", "str", "list"):
                # truthy left operand: `a || b` is a, `a && b` is b
                if self.chance(50):
                    return ("bin", "||", self.expr(kind, depth - 1), self.expr("any", depth - 1))
                return ("bin", "&&", self.expr("num", depth - 1), self.expr(kind, depth - 1))
            if kind == "nil":
                return ("bin", "&&", ("nil",), self.expr("any", depth - 1))
        if c < 38 and self.cfg.lambdas:
            # immediately applied lambda
            p = self.fresh("p")
            self.scopes.append([Var(p, kind, True)])
            self.fn_ret.append(kind)
            saved_loop, self.in_loop = self.in_loop, 0
            body = self.expr(kind, depth - 1)
            self.in_loop = saved_loop
            self.fn_ret.pop()
            self.scopes.pop()
            return ("call", ("lambda", [p], ("expr", body)), [self.expr(kind, depth - 1)])
        if c < 42:
            ls = self.visible(lambda v: v.kind == "list" and v.elem == kind)
            if ls:
                return ("index", ("var", self.pick(ls).name), ("num", float(self.i(-1, 2))))
        return None

    def call_of(self, f, depth):
        n = len(f.params)
        if self.chance(4):
            n = max(0, n + self.pick([-1, 1]))  # wrong arity on purpose
        args = [self.expr(f.params[i] if i < len(f.params) else "any", depth - 1) for i in range(n)]
        return ("call", ("var", f.name), args)

    def expr_num(self, depth):
        e = self.common("num", depth)
        if e is not None:
            return e
        c = self.i(0, 99)
        if c < 45:
            op = self.pick(["+", "-", "*", "/", "+", "-", "*"])
            return ("bin", op, self.expr("num", depth - 1), self.expr("num", depth - 1))
        if c < 55:
            return ("un", "-", self.expr("num", depth - 1))
        if c < 63:
            vs = self.visible(lambda v: v.kind == "num" and v.mutable)
            if vs:
                return ("opassign", self.pick(["+", "-", "*", "/"]), ("var", self.pick(vs).name),
                        self.expr("num", depth - 1))
        if c < 70:
            return ("call", ("prop", self.expr(self.pick(["str", "list"]), depth - 1), "len"), [])
        return self.leaf("num")

    def expr_str(self, depth):
        e = self.common("str", depth)
        if e is not None:
            return e
        c = self.i(0, 99)
        if c < 30:
            return ("bin", "+", self.expr("str", depth - 1), self.expr("str", depth - 1))
        if c < 55:
            parts = []
            for _ in range(self.i(1, 3)):
                if self.chance(50):
                    s = self.str_val().replace("$", "")
                    parts.append(s)
                else:
                    parts.append(self.expr(self.pick(["num", "str", "bool", "nil", "list"]), depth - 1))
            # adjacent literal parts are merged so the AST matches what the scanner sees
            merged = []
            for p in parts:
                if isinstance(p, str) and merged and isinstance(merged[-1], str):
                    merged[-1] += p
                else:
                    merged.append(p)
            if not any(not isinstance(p, str) for p in merged):
                merged.append(self.expr("num", 0))
            return ("interp", merged)
        if c < 62:
            vs = self.visible(lambda v: v.kind == "str" and v.mutable)
            if vs:
                return ("opassign", "+", ("var", self.pick(vs).name), self.expr("str", depth - 1))
        if c < 70:
            return ("call", ("prop", self.expr(self.pick(["num", "bool", "nil", "str"]), depth - 1), "str"), [])
        return self.leaf("str")

    def expr_bool(self, depth):
        e = self.common("bool", depth)
        if e is not None:
            return e
        c = self.i(0, 99)
        if c < 35:
            op = self.pick(["<", "<=", ">", ">="])
            k = "num" if self.chance(75) else "str"
            return ("bin", op, self.expr(k, depth - 1), self.expr(k, depth - 1))
        if c < 60:
            op = self.pick(["==", "!="])
            k = self.pick(KINDS)
            k2 = k if self.chance(80) else self.pick(KINDS)
            return ("bin", op, self.expr(k, depth - 1), self.expr(k2, depth - 1))
        if c < 72:
            return ("un", "!", self.expr("any", depth - 1))
        if c < 90:
            return ("bin", self.pick(["&&", "||"]), self.expr("bool", depth - 1), self.expr("bool", depth - 1))
        return self.leaf("bool")

    def expr_nil(self, depth):
        e = self.common("nil", depth)
        if e is not None:
            return e
        return self.leaf("nil")

    def expr_list(self, depth):
        e = self.common("list", depth)
        if e is not None:
            return e
        n = self.i(0, 3)
        return ("list", [self.expr(self.pick(["num", "str", "nil", "bool"]), depth - 1) for _ in range(n)])

    # ------------------------------------------------------------------ statements
    def block(self, depth, n=None, extra_scope=None):
        self.scopes.append(list(extra_scope or []))
        out = []
        n = self.i(0, self.cfg.max_stmts // 2 + 1) if n is None else n
        for _ in range(n):
            if self.stmt_budget <= 0:
                break
            out.extend(self.stmt(depth))
        self.scopes.pop()
        return out

    def stmts(self, n, depth):
        out = []
        for _ in range(n):
            if self.stmt_budget <= 0:
                break
            out.extend(self.stmt(depth))
        return out

    def stmt(self, depth):
        """Returns a list of statements (some constructs need a prologue)."""
        self.stmt_budget -= 1
        d = self.cfg.max_depth - 1
        c = self.i(0, 99)
        if c < 22:
            return [self.let_stmt(d)]
        if c < 40:
            return [("print", self.expr("any", d))]
        if c < 50:
            vs = self.visible(lambda v: v.mutable and v.kind in KINDS)
            if vs:
                v = self.pick(vs)
                return [("expr", ("assign", ("var", v.name), self.expr(v.kind, d)))]
            return [self.let_stmt(d)]
        if c < 60 and depth > 0:
            return [self.if_stmt(depth)]
        if c < 68 and depth > 0 and self.cfg.loops:
            return self.while_stmt(depth)
        if c < 76 and depth > 0 and self.cfg.loops:
            return [self.for_stmt(depth)]
        if c < 84 and depth > 0 and self.cfg.fns:
            return [self.fn_stmt(depth)]
        if c < 88 and self.in_loop and "break-continue" not in self.cfg.hazards:
            cond = self.expr("bool", 2)
            return [("if", cond, [("break",) if self.chance(50) else ("continue",)], None)]
        if c < 92 and self.fn_ret and self.cfg.returns:
            k = self.fn_ret[-1]
            cond = self.expr("bool", 2)
            ret = ("return", self.expr(k, d)) if (k != "nil" or self.chance(50)) else ("return", None)
            return [("if", cond, [ret], None)]
        if c < 96 and self.cfg.lambdas:
            return [self.lambda_let(d)]
        return [("expr", self.expr("any", d))]

    def let_stmt(self, d):
        k = self.pick(KINDS)
        name = self.fresh()
        if k == "nil" and self.chance(50):
            s = ("let", name, None)
        else:
            s = ("let", name, self.expr(k, d))
        elem = None
        if k == "list":
            elem = "any"
        self.declare(Var(name, k, True, elem=elem))
        return s

    def lambda_let(self, d):
        name = self.fresh("g")
        nparams = self.i(0, 2)
        pk = [self.pick(["num", "str", "bool"]) for _ in range(nparams)]
        rk = self.pick(["num", "str", "bool", "nil"])
        params = [self.fresh("p") for _ in range(nparams)]
        self.scopes.append([Var(p, k, True) for p, k in zip(params, pk)])
        self.fn_ret.append(rk)
        saved_loop, self.in_loop = self.in_loop, 0
        if self.chance(60):
            body = ("expr", self.expr(rk, d))
        else:
            st_ = self.block(1, self.i(0, 2))
            st_.append(("implicit", self.expr(rk, d)) if self.chance(70) else ("return", self.expr(rk, d)))
            body = ("block", st_)
        self.in_loop = saved_loop
        self.fn_ret.pop()
        self.scopes.pop()
        self.declare(Var(name, "fn", False, params=pk, ret=rk))
        return ("let", name, ("lambda", params, body))

    def if_stmt(self, depth):
        cond = self.expr("bool" if self.chance(80) else "any", 3)
        then = self.block(depth - 1)
        els = None
        c = self.i(0, 9)
        if c < 4:
            els = self.block(depth - 1)
        elif c < 6 and depth > 1:
            els = self.if_stmt(depth - 1)
        return ("if", cond, then, els)

    def while_stmt(self, depth):
        c = self.fresh("c")
        n = self.i(0, 4)
        pro = ("let", c, ("num", 0.0))
        self.declare(Var(c, "num", False))
        self.in_loop += 1
        body = [("expr", ("opassign", "+", ("var", c), ("num", 1.0)))] + self.block(depth - 1)
        self.in_loop -= 1
        return [pro, ("while", ("bin", "<", ("var", c), ("num", float(n))), body)]

    def for_stmt(self, depth):
        item = self.fresh("i")
        c = self.i(0, 9)
        if c < 4:
            it = ("call", ("prop", ("num", float(self.i(0, 4))), "times"), [])
            k = "num"
        elif c < 7:
            k = self.pick(["num", "str", "bool", "nil"])
            it = ("list", [self.expr(k, 1) for _ in range(self.i(0, 3))])
        elif c < 9:
            lo = self.i(0, 3)
            it = ("call", ("prop", ("num", float(lo)), "until"), [("num", float(lo + self.i(0, 4)))])
            k = "num"
        else:
            it = ("call", ("prop", self.expr("str", 1), "iter"), [])
            k = "str"
        self.in_loop += 1
        body = self.block(depth - 1, None, [Var(item, k, True)])
        self.in_loop -= 1
        return ("for", item, it, body)

    def fn_stmt(self, depth):
        name = self.fresh("f")
        nparams = self.i(0, 3)
        pk = [self.pick(["num", "str", "bool", "list"]) for _ in range(nparams)]
        rk = self.pick(["num", "str", "bool", "nil"])
        params = [self.fresh("p") for _ in range(nparams)]
        self.scopes.append([Var(p, k, True, elem="any" if k == "list" else None) for p, k in zip(params, pk)])
        self.fn_ret.append(rk)
        saved_loop, self.in_loop = self.in_loop, 0
        body = self.block(depth - 1)
        c = self.i(0, 9)
        if c < 5:
            body.append(("implicit", self.expr(rk, self.cfg.max_depth - 1)))
        elif c < 8:
            body.append(("return", self.expr(rk, self.cfg.max_depth - 1)))
        # else: falls off the end -> nil
        ret = rk if c < 8 else "nil"
        self.in_loop = saved_loop
        self.fn_ret.pop()
        self.scopes.pop()
        self.declare(Var(name, "fn", False, params=pk, ret=ret))
        return ("fn", name, params, body)


def program(cfg=None, n_stmts=(1, 8)):
    @st.composite
    def strat(draw):
        g = G(draw, cfg)
        n = draw(_int(n_stmts[0], n_stmts[1]))
        return g.stmts(n, 3)
    return strat()
