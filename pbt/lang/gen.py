"""Hypothesis program generators (well scoped, terminating and deterministic by construction).

One class, `G`, threads the generation context; profiles switch construct families on.
Every random choice is a Hypothesis draw so whole programs shrink and replay.
"""
from hypothesis import strategies as st

NUM_LITS = [0.0, 1.0, 2.0, 3.0, 5.0, 7.0, 10.0, 0.5, 2.25, 0.1, 100.0, 255.0, 256.0, 1e15, 9007199254740993.0,
            1e21, 1e308, 1e-7, 5e-324, 123456789.125]
STR_ALPHA = ["a", "b", "c", "z", "A", " ", "0", "7", "é", "λ", "😀", "'", '"', "\\", "$", "_", "\n", "\t", "ß"]
KINDS = ["num", "str", "bool", "nil", "list"]

_int = st.integers


class Var:
    __slots__ = ("name", "kind", "mutable", "params", "ret", "elem")

    def __init__(self, name, kind, mutable=True, params=None, ret=None, elem=None):
        self.name = name
        self.kind = kind  # num str bool nil list fn any
        self.mutable = mutable
        self.params = params  # for fn: list of kinds
        self.ret = ret
        self.elem = elem  # for list: element kind


HAZARD_INDEX_TWICE = "compound-index-assignment-with-effectful-index"


class Cfg:
    def __init__(self, **kw):
        self.max_depth = 4
        self.max_stmts = 8
        self.p_confuse = 6  # percent
        self.fns = True
        self.lambdas = True
        self.loops = True
        self.closures = False
        self.classes = False
        self.exceptions = False
        self.effectful_index = False  # G: index functions of compound index assignments count their calls (C01 opts in)
        self.exc_fibers = False  # GE: workers that catch errors of their own while main waits on a channel
        self.returns = True
        self.hazards = set()  # hazard tags whose construct must not be generated
        for k, v in kw.items():
            setattr(self, k, v)


class G:
    def __init__(self, draw, cfg=None):
        self.draw = draw
        self.cfg = cfg or Cfg()
        self.scopes = [[]]
        self.counter = 0
        self.in_loop = 0
        self.fn_ret = []  # stack of return kinds of enclosing functions
        self.stmt_budget = 40

    # ------------------------------------------------------------------ primitives
    def i(self, lo, hi):
        return self.draw(_int(lo, hi))

    def pick(self, seq):
        return seq[self.i(0, len(seq) - 1)]

    def chance(self, percent):
        # rotated so that the range's edge values (which Hypothesis over-samples) are not in small windows
        return (self.i(0, 99) + 37) % 100 < percent

    def fresh(self, prefix="v"):
        self.counter += 1
        return "%s%d" % (prefix, self.counter)

    def visible(self, pred=None):
        out = []
        seen = set()
        for sc in reversed(self.scopes):
            for v in reversed(sc):
                if v.name in seen:
                    continue
                seen.add(v.name)
                if pred is None or pred(v):
                    out.append(v)
        return out

    def declare(self, var):
        self.scopes[-1].append(var)
        return var

    # ------------------------------------------------------------------ literals
    def num_lit(self):
        c = self.i(0, 9)
        if c < 6:
            return ("num", float(self.i(0, 12)))
        return ("num", self.pick(NUM_LITS))

    def str_val(self):
        n = self.i(0, 4)
        s = "".join(self.pick(STR_ALPHA) for _ in range(n))
        return s.replace("${", "$")

    def str_lit(self):
        return ("str", self.str_val())

    # ------------------------------------------------------------------ expressions
    def expr(self, kind, depth):
        """An expression whose value is (very likely) of `kind`."""
        if kind == "any":
            kind = self.pick(KINDS)
        if self.chance(self.cfg.p_confuse):
            kind = self.pick(KINDS)
        if depth <= 0:
            return self.leaf(kind)
        m = getattr(self, "expr_" + kind)
        return m(depth)

    def leaf(self, kind):
        vs = self.visible(lambda v: v.kind == kind)
        if vs and self.chance(60):
            return ("var", self.pick(vs).name)
        if kind == "num":
            return self.num_lit()
        if kind == "str":
            return self.str_lit()
        if kind == "bool":
            return ("true",) if self.chance(50) else ("false",)
        if kind == "nil":
            return ("nil",)
        if kind == "list":
            return ("list", [self.leaf(self.pick(["num", "str", "nil", "bool"])) for _ in range(self.i(0, 3))])
        return ("nil",)

    def common(self, kind, depth):
        """Kind preserving constructs available for every kind. Returns None to decline."""
        c = self.i(0, 99)
        if c < 12:
            return ("tern", self.expr("bool", depth - 1), self.expr(kind, depth - 1), self.expr(kind, depth - 1))
        if c < 18:
            vs = self.visible(lambda v: v.kind == kind and v.mutable)
            if vs:
                return ("assign", ("var", self.pick(vs).name), self.expr(kind, depth - 1))
        if c < 26 and self.cfg.fns:
            fs = self.visible(lambda v: v.kind == "fn" and v.ret == kind)
            if fs:
                f = self.pick(fs)
                return self.call_of(f, depth)
        if c < 30:
            return ("group", self.expr(kind, depth - 1))
        if c < 34:
            # short circuit operators yield an operand
            if kind in ("num", "str", "list"):
                # truthy left operand: `a || b` is a, `a && b` is b
                if self.chance(50):
                    return ("bin", "||", self.expr(kind, depth - 1), self.expr("any", depth - 1))
                return ("bin", "&&", self.expr("num", depth - 1), self.expr(kind, depth - 1))
            if kind == "nil":
                return ("bin", "&&", ("nil",), self.expr("any", depth - 1))
        if c < 38 and self.cfg.lambdas:
            # immediately applied lambda
            p = self.fresh("p")
            self.scopes.append([Var(p, kind, True)])
            self.fn_ret.append(kind)
            saved_loop, self.in_loop = self.in_loop, 0
            body = self.expr(kind, depth - 1)
            self.in_loop = saved_loop
            self.fn_ret.pop()
            self.scopes.pop()
            return ("call", ("lambda", [p], ("expr", body)), [self.expr(kind, depth - 1)])
        if c < 42:
            ls = self.visible(lambda v: v.kind == "list" and v.elem == kind)
            if ls:
                return ("index", ("var", self.pick(ls).name), ("num", float(self.i(-1, 2))))
        return None

    def call_of(self, f, depth):
        n = len(f.params)
        if self.chance(4):
            n = max(0, n + self.pick([-1, 1]))  # wrong arity on purpose
        args = [self.expr(f.params[i] if i < len(f.params) else "any", depth - 1) for i in range(n)]
        return ("call", ("var", f.name), args)

    def expr_num(self, depth):
        e = self.common("num", depth)
        if e is not None:
            return e
        c = self.i(0, 99)
        if c < 45:
            op = self.pick(["+", "-", "*", "/", "+", "-", "*"])
            return ("bin", op, self.expr("num", depth - 1), self.expr("num", depth - 1))
        if c < 55:
            return ("un", "-", self.expr("num", depth - 1))
        if c < 63:
            vs = self.visible(lambda v: v.kind == "num" and v.mutable)
            if vs:
                return ("opassign", self.pick(["+", "-", "*", "/"]), ("var", self.pick(vs).name),
                        self.expr("num", depth - 1))
        if c < 70:
            return ("call", ("prop", self.expr(self.pick(["str", "list"]), depth - 1), "len"), [])
        return self.leaf("num")

    def expr_str(self, depth):
        e = self.common("str", depth)
        if e is not None:
            return e
        c = self.i(0, 99)
        if c < 30:
            return ("bin", "+", self.expr("str", depth - 1), self.expr("str", depth - 1))
        if c < 55:
            parts = []
            for _ in range(self.i(1, 3)):
                if self.chance(50):
                    s = self.str_val().replace("$", "")
                    parts.append(s)
                else:
                    parts.append(self.expr(self.pick(["num", "str", "bool", "nil", "list"]), depth - 1))
            # adjacent literal parts are merged so the AST matches what the scanner sees
            merged = []
            for p in parts:
                if isinstance(p, str) and merged and isinstance(merged[-1], str):
                    merged[-1] += p
                else:
                    merged.append(p)
            if not any(not isinstance(p, str) for p in merged):
                merged.append(self.expr("num", 0))
            return ("interp", merged)
        if c < 62:
            vs = self.visible(lambda v: v.kind == "str" and v.mutable)
            if vs:
                return ("opassign", "+", ("var", self.pick(vs).name), self.expr("str", depth - 1))
        if c < 70:
            return ("call", ("prop", self.expr(self.pick(["num", "bool", "nil", "str"]), depth - 1), "str"), [])
        return self.leaf("str")

    def expr_bool(self, depth):
        e = self.common("bool", depth)
        if e is not None:
            return e
        c = self.i(0, 99)
        if c < 35:
            op = self.pick(["<", "<=", ">", ">="])
            k = "num" if self.chance(75) else "str"
            return ("bin", op, self.expr(k, depth - 1), self.expr(k, depth - 1))
        if c < 60:
            op = self.pick(["==", "!="])
            k = self.pick(KINDS)
            k2 = k if self.chance(80) else self.pick(KINDS)
            return ("bin", op, self.expr(k, depth - 1), self.expr(k2, depth - 1))
        if c < 72:
            return ("un", "!", self.expr("any", depth - 1))
        if c < 90:
            return ("bin", self.pick(["&&", "||"]), self.expr("bool", depth - 1), self.expr("bool", depth - 1))
        return self.leaf("bool")

    def expr_nil(self, depth):
        e = self.common("nil", depth)
        if e is not None:
            return e
        return self.leaf("nil")

    def expr_list(self, depth):
        e = self.common("list", depth)
        if e is not None:
            return e
        n = self.i(0, 3)
        return ("list", [self.expr(self.pick(["num", "str", "nil", "bool"]), depth - 1) for _ in range(n)])

    # ------------------------------------------------------------------ statements
    def block(self, depth, n=None, extra_scope=None):
        self.scopes.append(list(extra_scope or []))
        out = []
        n = self.i(0, self.cfg.max_stmts // 2 + 1) if n is None else n
        for _ in range(n):
            if self.stmt_budget <= 0:
                break
            out.extend(self.stmt(depth))
        self.scopes.pop()
        return out

    def stmts(self, n, depth):
        out = []
        for _ in range(n):
            if self.stmt_budget <= 0:
                break
            out.extend(self.stmt(depth))
        return out

    def stmt(self, depth):
        """Returns a list of statements (some constructs need a prologue)."""
        self.stmt_budget -= 1
        d = self.cfg.max_depth - 1
        c = self.i(0, 99)
        if c < 22:
            return [self.let_stmt(d)]
        if c < 37:
            return [("print", self.expr("any", d))]
        if c < 40:
            return self.index_opassign_stmt()
        if c < 50:
            vs = self.visible(lambda v: v.mutable and v.kind in KINDS)
            if vs:
                v = self.pick(vs)
                return [("expr", ("assign", ("var", v.name), self.expr(v.kind, d)))]
            return [self.let_stmt(d)]
        if c < 60 and depth > 0:
            return [self.if_stmt(depth)]
        if c < 68 and depth > 0 and self.cfg.loops:
            return self.while_stmt(depth)
        if c < 76 and depth > 0 and self.cfg.loops:
            return [self.for_stmt(depth)]
        if c < 84 and depth > 0 and self.cfg.fns:
            return [self.fn_stmt(depth)]
        if c < 88 and self.in_loop and "break-continue" not in self.cfg.hazards:
            return self.exit_stmt(lambda: ("break",) if self.chance(50) else ("continue",))
        if c < 92 and self.fn_ret and self.cfg.returns:
            k = self.fn_ret[-1]
            return self.exit_stmt(lambda: ("return", self.expr(k, d)) if (k != "nil" or self.chance(50)) else ("return", None))
        if c < 96 and self.cfg.lambdas:
            return [self.lambda_let(d)]
        return [("expr", self.expr("any", d))]

    def index_opassign_stmt(self):
        """xs[ix()] op= e; on a list or a map whose index / key comes from a function that counts its calls: the
        index is evaluated once, before the right hand side."""
        xs, ct, ix = self.fresh("xs"), self.fresh("ct"), self.fresh("ix")
        effectful = self.cfg.effectful_index and HAZARD_INDEX_TWICE not in self.cfg.hazards
        as_map = self.chance(30)
        if as_map:
            coll = ("map", [(("str", "a"), ("num", 1.0)), (("str", "b"), ("num", 2.0))])
            first, later = ("str", "a"), ("str", "b")
        else:
            coll = ("list", [("num", 1.0), ("num", 2.0), ("num", 3.0)])
            first, later = ("num", float(self.i(0, 1))), ("num", 2.0)
        out = [("let", xs, coll), ("let", ct, ("num", 0.0))]
        if effectful:
            body = [("expr", ("assign", ("var", ct), ("bin", "+", ("var", ct), ("num", 1.0)))),
                    ("return", ("tern", ("bin", "==", ("var", ct), ("num", 1.0)), first, later))]
        else:
            # (known finding: the index expression of a compound assignment is evaluated twice)
            body = [("return", first)]
        out.append(("fn", ix, [], body))
        op = self.pick(["+", "-", "*", "/"])
        target = ("index", ("var", xs), ("call", ("var", ix), []))
        e = ("opassign", op, target, self.expr("num", 1))
        out.append(("print", e) if self.chance(40) else ("expr", e))
        if as_map:
            # (a map prints in hash order, which for strings is an address: entries are read one by one)
            out.append(("print", ("index", ("var", xs), ("str", "a"))))
            out.append(("print", ("index", ("var", xs), ("str", "b"))))
        else:
            out.append(("print", ("var", xs)))
        out.append(("print", ("var", ct)))
        return out

    def exit_stmt(self, make):
        """A break / continue / return in one of the positions it can take: alone in a then-arm, at the end of a
        then-arm or of an else-arm after other statements (the statements after the if then run with the block's
        locals already dropped on one path only), or at the end of both arms."""
        cond = self.expr("bool", 2)
        form = self.i(0, 9)
        if form < 4:
            return [("if", cond, [make()], None)]
        if form < 6:
            return [("if", cond, self.block(1, self.i(1, 2)) + [make()], None)]
        if form < 9:
            then = self.block(1, self.i(0, 2))
            return [("if", cond, then, self.block(1, self.i(0, 2)) + [make()])]
        return [("if", cond, self.block(1, self.i(0, 1)) + [make()], self.block(1, self.i(0, 1)) + [make()])]

    def let_stmt(self, d):
        k = self.pick(KINDS)
        name = self.fresh()
        if k == "nil" and self.chance(50):
            s = ("let", name, None)
        else:
            s = ("let", name, self.expr(k, d))
        elem = None
        if k == "list":
            elem = "any"
        self.declare(Var(name, k, True, elem=elem))
        return s

    def lambda_let(self, d):
        name = self.fresh("g")
        nparams = self.i(0, 2)
        pk = [self.pick(["num", "str", "bool"]) for _ in range(nparams)]
        rk = self.pick(["num", "str", "bool", "nil"])
        params = [self.fresh("p") for _ in range(nparams)]
        self.scopes.append([Var(p, k, True) for p, k in zip(params, pk)])
        self.fn_ret.append(rk)
        saved_loop, self.in_loop = self.in_loop, 0
        if self.chance(60):
            body = ("expr", self.expr(rk, d))
        else:
            st_ = self.block(1, self.i(0, 2))
            st_.append(("implicit", self.expr(rk, d)) if self.chance(70) else ("return", self.expr(rk, d)))
            body = ("block", st_)
        self.in_loop = saved_loop
        self.fn_ret.pop()
        self.scopes.pop()
        self.declare(Var(name, "fn", False, params=pk, ret=rk))
        return ("let", name, ("lambda", params, body))

    def if_stmt(self, depth):
        cond = self.expr("bool" if self.chance(80) else "any", 3)
        then = self.block(depth - 1)
        els = None
        c = self.i(0, 9)
        if c < 4:
            els = self.block(depth - 1)
        elif c < 6 and depth > 1:
            els = self.if_stmt(depth - 1)
        return ("if", cond, then, els)

    def while_stmt(self, depth):
        c = self.fresh("c")
        n = self.i(0, 4)
        pro = ("let", c, ("num", 0.0))
        self.declare(Var(c, "num", False))
        self.in_loop += 1
        body = [("expr", ("opassign", "+", ("var", c), ("num", 1.0)))] + self.block(depth - 1)
        self.in_loop -= 1
        return [pro, ("while", ("bin", "<", ("var", c), ("num", float(n))), body)]

    def for_stmt(self, depth):
        item = self.fresh("i")
        c = self.i(0, 9)
        if c < 4:
            it = ("call", ("prop", ("num", float(self.i(0, 4))), "times"), [])
            k = "num"
        elif c < 7:
            k = self.pick(["num", "str", "bool", "nil"])
            it = ("list", [self.expr(k, 1) for _ in range(self.i(0, 3))])
        elif c < 9:
            lo = self.i(0, 3)
            it = ("call", ("prop", ("num", float(lo)), "until"), [("num", float(lo + self.i(0, 4)))])
            k = "num"
        else:
            it = ("call", ("prop", self.expr("str", 1), "iter"), [])
            k = "str"
        self.in_loop += 1
        body = self.block(depth - 1, None, [Var(item, k, True)])
        self.in_loop -= 1
        return ("for", item, it, body)

    def fn_stmt(self, depth):
        name = self.fresh("f")
        nparams = self.i(0, 3)
        pk = [self.pick(["num", "str", "bool", "list"]) for _ in range(nparams)]
        rk = self.pick(["num", "str", "bool", "nil"])
        params = [self.fresh("p") for _ in range(nparams)]
        self.scopes.append([Var(p, k, True, elem="any" if k == "list" else None) for p, k in zip(params, pk)])
        self.fn_ret.append(rk)
        saved_loop, self.in_loop = self.in_loop, 0
        body = self.block(depth - 1)
        c = self.i(0, 9)
        if c < 5:
            body.append(("implicit", self.expr(rk, self.cfg.max_depth - 1)))
        elif c < 8:
            body.append(("return", self.expr(rk, self.cfg.max_depth - 1)))
        # else: falls off the end -> nil
        ret = rk if c < 8 else "nil"
        self.in_loop = saved_loop
        self.fn_ret.pop()
        self.scopes.pop()
        self.declare(Var(name, "fn", False, params=pk, ret=ret))
        return ("fn", name, params, body)


def program(cfg=None, n_stmts=(1, 8)):
    @st.composite
    def strat(draw):
        g = G(draw, cfg)
        n = draw(_int(n_stmts[0], n_stmts[1]))
        return g.stmts(n, 3)
    return strat()


# ======================================================================================
# closure profile (C02)
# ======================================================================================
class GC(G):
    """Scenario generator for lexical scoping and captures.

    A *maker* is a function that declares variables of every kind, creates closures over
    drawn subsets of them (directly, in loops, in catch blocks, through nested makers) and
    returns them in a list; the caller interleaves calls of the returned closures of several
    maker invocations with prints."""

    def __init__(self, draw, cfg=None):
        G.__init__(self, draw, cfg or Cfg(max_depth=3, p_confuse=0))
        self.makers = []  # (name, param count, [closure sigs])

    def num_expr(self, d=2):
        return self.expr("num", d)

    def closure_body(self, nparams):
        """A lambda over currently visible variables. Returns (ast, ret kind)."""
        params = [self.fresh("q") for _ in range(nparams)]
        self.scopes.append([Var(p, "num", True) for p in params])
        self.fn_ret.append("num")
        saved_loop, self.in_loop = self.in_loop, 0
        c = self.i(0, 9)
        if c < 4:
            body = ("expr", self.num_expr(2))
        else:
            stmts = []
            for _ in range(self.i(1, 3)):
                vs = self.visible(lambda v: v.kind == "num" and v.mutable)
                cc = self.i(0, 9)
                if vs and cc < 6:
                    v = self.pick(vs)
                    if self.chance(50):
                        stmts.append(("expr", ("assign", ("var", v.name), self.num_expr(2))))
                    else:
                        stmts.append(("expr", ("opassign", self.pick(["+", "-", "*"]), ("var", v.name),
                                               self.num_expr(1))))
                elif cc < 8:
                    stmts.append(("print", self.num_expr(1)))
                else:
                    name = self.fresh()
                    stmts.append(("let", name, self.num_expr(1)))
                    self.declare(Var(name, "num", True))
            if self.chance(70):
                stmts.append(("implicit", self.num_expr(2)))
            else:
                stmts.append(("return", self.num_expr(2)))
            body = ("block", stmts)
        self.in_loop = saved_loop
        self.fn_ret.pop()
        self.scopes.pop()
        return ("lambda", params, body)

    def maker(self, depth):
        name = self.fresh("mk")
        nparams = self.i(0, 3)
        params = [self.fresh("p") for _ in range(nparams)]
        self.scopes.append([Var(p, "num", True) for p in params])
        self.fn_ret.append("list")
        saved_loop, self.in_loop = self.in_loop, 0
        body = []
        made = []  # local names holding closures, with param counts
        lists = []  # local names holding lists of 0-ary closures with their (static) length
        for _ in range(self.i(2, 7)):
            c = self.i(0, 99)
            if c < 18:
                v = self.fresh()
                body.append(("let", v, self.num_expr(2)))
                self.declare(Var(v, "num", True))
            elif c < 45:
                g = self.fresh("g")
                k = self.i(0, 2)
                if self.chance(25):
                    # a named inner function instead of a lambda
                    params2 = [self.fresh("q") for _ in range(k)]
                    self.scopes.append([Var(p, "num", True) for p in params2])
                    self.fn_ret.append("num")
                    st_ = []
                    vs = self.visible(lambda v: v.kind == "num" and v.mutable)
                    if vs and self.chance(70):
                        st_.append(("expr", ("opassign", "+", ("var", self.pick(vs).name), self.num_expr(1))))
                    st_.append(("implicit", self.num_expr(2)))
                    self.fn_ret.pop()
                    self.scopes.pop()
                    body.append(("fn", g, params2, st_))
                else:
                    body.append(("let", g, self.closure_body(k)))
                self.declare(Var(g, "fn", False, params=["num"] * k, ret="num"))
                made.append((g, k))
            elif c < 58 and self.cfg.loops:
                acc = self.fresh("acc")
                n = self.i(1, 3)
                item = self.fresh("i")
                body.append(("let", acc, ("list", [])))
                self.scopes.append([Var(item, "num", True)])
                inner = []
                if self.chance(60):
                    j = self.fresh()
                    inner.append(("let", j, self.num_expr(1)))
                    self.declare(Var(j, "num", True))
                inner.append(("expr", ("call", ("prop", ("var", acc), "push"), [self.closure_body(0)])))
                self.scopes.pop()
                iterable = ("call", ("prop", ("num", float(n)), "times"), [])
                vs = self.visible(lambda v: v.kind == "num")
                if vs and self.chance(40):
                    # the iterable is computed from visible variables, half of the time inside a lambda that is
                    # called on the spot: it is evaluated before the loop variable exists
                    elems = [("var", self.pick(vs).name) for _ in range(n)]
                    iterable = ("list", elems)
                    if self.chance(50):
                        iterable = ("call", ("group", ("lambda", [], ("expr", iterable))), [])
                body.append(("for", item, iterable, inner))
                lists.append((acc, n))
            elif c < 62 and made:
                g, k = self.pick(made)
                body.append(("print", ("call", ("var", g), [self.num_expr(1) for _ in range(k)])))
            elif c < 66:
                # a closure whose only mention of an outer variable sits in the index of a second or later trailer
                # (rows[0][v], make()[v], box.items[v]): the resolver has to walk every trailer to see the capture
                vs = self.visible(lambda v: v.kind == "num")
                if vs:
                    v = self.pick(vs)
                    zero = ("bin", "*", ("var", v.name), ("num", 0.0))
                    rows = ("list", [("list", [("num", 10.0), ("num", 20.0)])])
                    form = self.i(0, 2)
                    if form == 0:
                        e = ("index", ("index", rows, ("num", 0.0)), zero)
                    elif form == 1:
                        e = ("index", ("call", ("group", ("lambda", [], ("expr", ("list", [("num", 5.0), ("num", 6.0)])))), []), zero)
                    else:
                        e = ("index", ("index", ("index", ("list", [rows]), ("num", 0.0)), ("num", 0.0)), zero)
                    g = self.fresh("g")
                    body.append(("let", g, ("lambda", [], ("expr", e))))
                    self.declare(Var(g, "fn", False, params=[], ret="num"))
                    made.append((g, 0))
            elif c < 74:
                vs = self.visible(lambda v: v.kind == "num" and v.mutable)
                if vs:
                    v = self.pick(vs)
                    body.append(("expr", ("opassign", self.pick(["+", "*"]), ("var", v.name), self.num_expr(1))))
                    body.append(("print", ("var", v.name)))
            elif c < 82 and depth > 0:
                inner_stmt, inner_name, inner_np, inner_sigs = self.maker(depth - 1)
                body.append(inner_stmt)
                r = self.fresh("r")
                body.append(("let", r, ("call", ("var", inner_name), [self.num_expr(1) for _ in range(inner_np)])))
                # expose the nested closures through wrappers so they are captures of captures
                for idx, k in enumerate(inner_sigs[:2]):
                    g = self.fresh("g")
                    ps = [self.fresh("q") for _ in range(k)]
                    body.append(("let", g, ("lambda", ps, ("expr", ("call", ("index", ("var", r), ("num", float(idx))),
                                                                  [("var", p) for p in ps])))))
                    made.append((g, k))
            elif c < 90 and self.cfg.exceptions:
                g = self.fresh("g")
                ev = self.fresh("e")
                body.append(("let", g, ("nil",)))
                msg = "m%d" % self.i(0, 9)
                body.append(("try", [("raise", ("call", ("var", "Error"), [("str", msg)]))],
                             [(ev, None, [("expr", ("assign", ("var", g), ("lambda", [], ("expr", ("call", ("prop", (
                                 "prop", ("var", ev), "message"), "len"), [])))))])]))
                made.append((g, 0))
            else:
                body.append(("print", self.num_expr(2)))
        sigs = [k for (_, k) in made]
        ret_items = [("var", g) for (g, _) in made]
        for (acc, n) in lists:
            for idx in range(n):
                ret_items.append(("index", ("var", acc), ("num", float(idx))))
                sigs.append(0)
        body.append(("return", ("list", ret_items)))
        self.in_loop = saved_loop
        self.fn_ret.pop()
        self.scopes.pop()
        self.declare(Var(name, "fn", False, params=["num"] * nparams, ret="list"))
        return ("fn", name, params, body), name, nparams, sigs

    def scenario(self):
        out = []
        # module level variables that makers may capture
        for _ in range(self.i(0, 2)):
            v = self.fresh("m")
            out.append(("let", v, self.num_expr(1)))
            self.declare(Var(v, "num", True))
        makers = []
        for _ in range(self.i(1, 2)):
            st_, name, np, sigs = self.maker(self.i(0, 2))
            out.append(st_)
            makers.append((name, np, sigs))
        results = []
        for _ in range(self.i(1, 3)):
            name, np, sigs = self.pick(makers)
            r = self.fresh("r")
            out.append(("let", r, ("call", ("var", name), [self.num_expr(1) for _ in range(np)])))
            results.append((r, sigs))
        for _ in range(self.i(2, 8)):
            r, sigs = self.pick(results)
            c = self.i(0, 9)
            if sigs and c < 8:
                idx = self.i(0, len(sigs) - 1)
                call = ("call", ("index", ("var", r), ("num", float(idx))), [self.num_expr(1) for _ in range(sigs[idx])])
                out.append(("print", call))
            else:
                vs = self.visible(lambda v: v.kind == "num" and v.mutable)
                if vs:
                    v = self.pick(vs)
                    out.append(("expr", ("opassign", "+", ("var", v.name), ("num", 1.0))))
                    out.append(("print", ("var", v.name)))
        return out


def closure_program(cfg=None):
    @st.composite
    def strat(draw):
        g = GC(draw, cfg)
        return g.scenario()
    return strat()


# ======================================================================================
# class profile (C03 / C13)
# ======================================================================================
METHOD_ARITY = {"m1": 0, "m2": 1, "m3": 0, "m4": 2, "m5": 1}
FIELD_POOL = ["f1", "f2", "f3", "f4", "f5", "f6"]


class ClassInfo:
    def __init__(self, name, parent):
        self.name = name
        self.parent = parent
        self.own_fields = []
        self.init_params = None  # None: no own init
        self.methods = []  # own method names
        self.statics = []
        self.shadow = []  # method names shadowed by a lambda field
        self.nil_fields = set()  # fields that may still be nil after construction

    def all_fields(self):
        out = list(self.parent.all_fields()) if self.parent else []
        for f in self.own_fields:
            if f not in out:
                out.append(f)
        return out

    def all_methods(self):
        out = set(self.parent.all_methods()) if self.parent else set()
        out.update(self.methods)
        return out

    def parent_methods(self):
        return self.parent.all_methods() if self.parent else set()

    def has_init(self):
        c = self
        while c is not None:
            if c.init_params is not None:
                return True
            c = c.parent
        return False

    def maybe_nil(self):
        out = set(self.parent.maybe_nil()) if self.parent else set()
        out.update(self.nil_fields)
        return out

    def init_arity(self):
        c = self
        while c is not None:
            if c.init_params is not None:
                return len(c.init_params)
            c = c.parent
        return 0

    def depth(self):
        d, c = 1, self.parent
        while c is not None:
            d += 1
            c = c.parent
        return d

    def shadows(self):
        out = set(self.parent.shadows()) if self.parent else set()
        out.update(self.shadow)
        return out


class GK(G):
    def __init__(self, draw, cfg=None):
        G.__init__(self, draw, cfg or Cfg(max_depth=3, p_confuse=0))
        self.klass = None  # ClassInfo while generating a method body
        self.in_init = False
        self.classes = []

    # field and method reads join the leaves while inside a method
    def leaf(self, kind):
        k = self.klass
        if k is not None and kind == "num" and self.chance(55):
            fields = [f for f in k.all_fields() if f not in k.shadows() and f != "peer"]
            if self.in_init:
                fields = [f for f in fields if f in self.assigned]
            else:
                fields = [f for f in fields if f not in k.maybe_nil()]
            c = self.i(0, 9)
            if fields and c < 6:
                f = self.pick(fields)
                return ("prop", ("self",), f) if self.chance(60) else ("at", f)
            ms = sorted(m for m in k.all_methods() if METHOD_ARITY[m] == 0 and m not in self._busy)
            if ms and c < 8 and self._depth_guard():
                return ("call", ("prop", ("self",), self.pick(ms)), [])
        return G.leaf(self, kind)

    _busy = ()

    def _depth_guard(self):
        return False  # method-to-method calls are generated explicitly (termination)

    def method_body(self, k, mname, nparams, is_init=False, is_static=False):
        params = [self.fresh("p") for _ in range(nparams)]
        self.scopes.append([Var(p, "num", True) for p in params])
        self.fn_ret.append("num")
        saved = (self.klass, self.in_init, self.in_loop)
        self.klass = None if is_static else k
        self.in_init = is_init
        self.in_loop = 0
        body = []
        if is_init:
            self.assigned = set()
            # super.init first (most of the time) so inherited fields are filled
            if k.parent is not None and k.parent.has_init():
                if self.chance(90):
                    body.append(("expr", ("call", ("super", "init"),
                                          [self.expr("num", 1) for _ in range(k.parent.init_arity())])))
                    self.assigned.update(f for f in k.parent.all_fields() if f not in k.parent.maybe_nil())
                else:
                    k.nil_fields.update(k.parent.all_fields())
            order = list(k.own_fields)
            # drawn order
            for i in range(len(order) - 1, 0, -1):
                j = self.i(0, i)
                order[i], order[j] = order[j], order[i]
            for f in order:
                tgt = ("prop", ("self",), f) if self.chance(60) else ("at", f)
                if f in k.shadow_fields:
                    # (the callable differs from instance to instance when it captures an initialiser parameter: a call
                    # site must run the receiver's own field, not the one it met first)
                    val = ("lambda", [self.fresh("q") for _ in range(METHOD_ARITY[k.shadow_fields[f]])],
                           ("expr", ("var", self.pick(params)) if params and self.chance(60) else ("num", float(self.i(40, 49)))))
                else:
                    val = self.expr("num", 2)
                asg = ("expr", ("assign", tgt, val))
                if self.chance(20) and f not in k.shadow_fields:
                    if self.chance(75):
                        body.append(("if", self.expr("bool", 1), [asg], [("expr", ("assign", tgt, self.expr("num", 1)))]))
                        self.assigned.add(f)
                    else:
                        body.append(("if", self.expr("bool", 1), [asg], None))
                        k.nil_fields.add(f)
                else:
                    body.append(asg)
                    self.assigned.add(f)
        else:
            for _ in range(self.i(0, 3)):
                c = self.i(0, 99)
                fields = [f for f in (k.all_fields() if not is_static else []) if f not in k.shadows()]
                if fields and c < 40:
                    fields = fields  # writes may target possibly-nil fields too
                    f = self.pick(fields)
                    tgt = ("prop", ("self",), f) if self.chance(60) else ("at", f)
                    if self.chance(50):
                        body.append(("expr", ("assign", tgt, self.expr("num", 2))))
                    else:
                        body.append(("expr", ("opassign", self.pick(["+", "-", "*"]), tgt, self.expr("num", 1))))
                elif c < 55:
                    body.append(("print", self.expr("num", 2)))
                elif c < 70:
                    v = self.fresh()
                    body.append(("let", v, self.expr("num", 2)))
                    self.declare(Var(v, "num", True))
                elif c < 80 and not is_static and mname in k.parent_methods():
                    # super call: zero args is fused into SuperInvoke, with args it is get-then-call
                    args = [self.expr("num", 1) for _ in range(METHOD_ARITY[mname])]
                    body.append(("print", ("call", ("super", mname), args)))
                elif c < 88 and not is_static and mname in k.parent_methods():
                    # super through a closure inside the method
                    args = [self.expr("num", 1) for _ in range(METHOD_ARITY[mname])]
                    g = self.fresh("g")
                    body.append(("let", g, ("lambda", [], ("expr", ("call", ("super", mname), args)))))
                    body.append(("print", ("call", ("var", g), [])))
                elif not is_static:
                    # call a method that sits lower in a fixed order (no recursion): m5 > m4 > ... > m1
                    lower = sorted(m for m in k.all_methods() if m < mname and not self.returns_closure(k, m)
                                   and m not in k.shadows())
                    if lower:
                        m2 = self.pick(lower)
                        body.append(("print", ("call", ("prop", ("self",), m2),
                                               [self.expr("num", 1) for _ in range(METHOD_ARITY[m2])])))
            if self.chance(20):
                # a handler later in the same method (after super calls, invokes, field accesses): whatever those left
                # on the simulated stack shows in the depth the handler records
                ev = self.fresh("he")
                hv = self.fresh("hv")
                body.append(("try", [("raise", ("call", ("var", "Error"), [("str", "h")]))],
                             [(ev, None, [("print", ("prop", ("var", ev), "message"))])]))
                body.append(("let", hv, ("num", 40.0)))
                body.append(("print", ("var", hv)))
            ret = self.expr("num", 2)
            if not is_static and self.chance(12):
                # a closure over self leaves the method
                body.append(("return", ("lambda", [], ("expr", ret))))
                self._ret_closure = True
            elif self.chance(60):
                body.append(("implicit", ret))
            else:
                body.append(("return", ret))
        self.klass, self.in_init, self.in_loop = saved
        self.fn_ret.pop()
        self.scopes.pop()
        return (mname, params, body)

    def klass_decl(self):
        name = "K%d" % (len(self.classes) + 1)
        parent = None
        if self.classes and self.chance(65):
            cands = [c for c in self.classes if c.depth() < 4]
            if cands:
                parent = self.pick(cands)
        k = ClassInfo(name, parent)
        k.shadow_fields = {}
        inherited = k.parent.all_fields() if parent else []
        nf = self.i(0, 3)
        for _ in range(nf):
            f = self.pick(FIELD_POOL)
            if f not in k.own_fields:
                k.own_fields.append(f)
        if self.chance(75) and "peer" not in inherited:
            # a field that will hold another instance (see the relay method)
            k.own_fields.insert(self.i(0, len(k.own_fields)), "peer")
        has_init = bool(k.own_fields) or self.chance(30)
        # method set
        for m in sorted(METHOD_ARITY):
            if self.chance(45):
                k.methods.append(m)
        # a lambda field shadowing a method
        if has_init and self.chance(18):
            cands = sorted(k.all_methods() | set(k.methods))
            if cands:
                m = self.pick(cands)
                fname = m  # the field has the method's name
                if fname not in k.own_fields:
                    k.own_fields.append(fname)
                k.shadow_fields[fname] = m
                k.shadow.append(m)
        init = None
        if has_init:
            k.init_params = [None] * self.i(0, 2)
            init = self.method_body(k, "init", len(k.init_params), is_init=True)
            k.init_params = init[1]
        methods = []
        self.closure_methods = getattr(self, "closure_methods", set())
        for m in k.methods:
            self._ret_closure = False
            mb = self.method_body(k, m, METHOD_ARITY[m])
            if self._ret_closure:
                self.closure_methods.add((k.name, m))
            methods.append(mb)
        if self.chance(70):
            # a method that reads / writes / compound-assigns fields of ANOTHER object: inside a class the compiler
            # knows the fixed slot of the class's own field names, which must not be applied to a foreign receiver
            def g(stmt):
                return ("try", [stmt], [("e", None, [("print", ("call", ("prop", ("call", ("prop", ("var", "e"), "cls"), []), "name"), []))])])
            pbody = []
            for _ in range(self.i(1, 4)):
                f = self.pick(FIELD_POOL)
                tgt = ("prop", ("var", "o"), f)
                c = self.i(0, 9)
                if c < 3:
                    pbody.append(g(("expr", ("assign", tgt, ("var", "v")))))
                elif c < 7:
                    pbody.append(g(("expr", ("opassign", self.pick(["+", "-", "*"]), tgt, ("var", "v")))))
                else:
                    pbody.append(g(("print", tgt)))
            pbody.append(("return", ("var", "v")))
            methods.append(("poke", ["o", "v"], pbody))
            k.has_poke = True
            # the same through a chain rooted at self: self.peer.<field> ... (the receiver of the last access is the
            # peer, whatever the first link of the chain is)
            rbody = [("expr", ("assign", ("prop", ("self",), "peer"), ("var", "o")))] if "peer" in k.all_fields() else []
            if rbody:
                for _ in range(self.i(2, 5)):
                    f = self.pick(FIELD_POOL)
                    base = ("prop", ("self",), "peer") if self.chance(70) else ("at", "peer")
                    tgt = ("prop", base, f)
                    c = self.i(0, 9)
                    if c < 4:
                        rbody.append(g(("expr", ("assign", tgt, ("var", "v")))))
                    elif c < 7:
                        rbody.append(g(("expr", ("opassign", self.pick(["+", "-", "*"]), tgt, ("var", "v")))))
                    elif c < 9:
                        rbody.append(g(("print", tgt)))
                    else:
                        rbody.append(g(("print", ("call", ("prop", base, self.pick(sorted(METHOD_ARITY))), []))))
                rbody.append(("return", ("var", "v")))
                methods.append(("relay", ["o", "v"], rbody))
                k.has_relay = True
        statics = []
        if self.chance(30):
            sname = "s%d" % self.i(1, 2)
            statics.append(self.method_body(k, sname, self.i(0, 1), is_static=True))
            k.statics.append((sname, len(statics[-1][1])))
        self.classes.append(k)
        self.declare(Var(name, "class", False))
        return ("class", name, parent.name if parent else None, init, methods, statics)

    def has_relay(self, k):
        while k is not None:
            if getattr(k, "has_relay", False):
                return True
            k = k.parent
        return False

    def has_poke(self, k):
        while k is not None:
            if getattr(k, "has_poke", False):
                return True
            k = k.parent
        return False

    def returns_closure(self, k, m):
        c = k
        while c is not None:
            if m in c.methods:
                return (c.name, m) in self.closure_methods
            c = c.parent
        return False

    def scenario(self):
        out = []
        for _ in range(self.i(1, 5)):
            out.append(self.klass_decl())
        # helper call sites reached by instances of several classes
        sites = [
            ("fn", "site1", ["o"], [("implicit", ("call", ("prop", ("var", "o"), "m1"), []))]),
            ("fn", "site2", ["o", "a"], [("implicit", ("call", ("prop", ("var", "o"), "m2"), [("var", "a")]))]),
            ("fn", "site3", ["o"], [("implicit", ("prop", ("var", "o"), "f1"))]),
            ("fn", "site4", ["o", "v"], [("expr", ("assign", ("prop", ("var", "o"), "f2"), ("var", "v"))),
                                         ("implicit", ("prop", ("var", "o"), "f2"))]),
            ("fn", "site5", ["o"], [("let", "b", ("prop", ("var", "o"), "m3")), ("implicit", ("call", ("var", "b"), []))]),
            ("fn", "call0", ["f"], [("implicit", ("call", ("var", "f"), []))]),
            # m3 called in one expression (a fused invoke; site5 reads the property first and calls it afterwards)
            ("fn", "site8", ["o"], [("implicit", ("call", ("prop", ("var", "o"), "m3"), []))]),
            # the value of an assignment expression is the assigned value, on the first execution and on every later one
            ("fn", "site6", ["o", "v"], [("return", ("assign", ("prop", ("var", "o"), "f2"), ("var", "v")))]),
            ("fn", "site7", ["o", "p", "v"], [("return", ("assign", ("prop", ("var", "o"), "f1"), ("assign", ("prop", ("var", "p"), "f1"), ("var", "v"))))]),
        ]
        out.extend(sites)
        objs = []
        for _ in range(self.i(1, 5)):
            k = self.pick(self.classes)
            o = self.fresh("o")
            n = k.init_arity()
            if self.chance(3):
                n += 1
            out.append(("let", o, ("call", ("var", k.name), [self.expr("num", 1) for _ in range(n)])))
            objs.append((o, k))
        for _ in range(self.i(3, 12)):
            o, k = self.pick(objs)
            c = self.i(0, 99)
            ov = ("var", o)

            def guarded(stmt):
                return ("try", [stmt], [("e", None, [("print", ("call", ("prop", ("call", ("prop", ("var", "e"), "cls"), []), "name"), []))])])

            def show(e, m=None):
                # values that may be closures are called before printing
                return ("print", e)
            if c < 14:
                # (a field that shadows m1 holds a lambda returning a number: printable)
                out.append(guarded(("print", ("call", ("var", "site1"), [ov]))) if ("m1" in k.shadows() or ("m1" not in k.all_methods() or self.returns_closure(k, "m1")) is False) else guarded(("expr", ("call", ("var", "site1"), [ov]))))
            elif c < 24:
                safe = "m2" in k.all_methods() and not self.returns_closure(k, "m2")
                call = ("call", ("var", "site2"), [ov, self.expr("num", 1)])
                out.append(guarded(("print", call) if safe else ("expr", call)))
            elif c < 32:
                out.append(guarded(("print", ("call", ("var", "site3"), [ov])) if "f1" in k.all_fields() and "f1" not in k.shadows() else ("expr", ("call", ("var", "site3"), [ov]))))
            elif c < 36:
                out.append(guarded(("print", ("call", ("var", "site4"), [ov, self.expr("num", 1)]))))
            elif c < 40:
                if self.chance(60):
                    out.append(guarded(("print", ("call", ("var", "site6"), [ov, self.expr("num", 1)]))))
                else:
                    o3, _k3 = self.pick(objs)
                    out.append(guarded(("print", ("call", ("var", "site7"), [ov, ("var", o3), self.expr("num", 1)]))))
            elif c < 48:
                safe = "m3" in k.all_methods() and not self.returns_closure(k, "m3")
                call = ("call", ("var", "site5"), [ov])
                out.append(guarded(("print", call) if safe else ("expr", call)))
            elif c < 60:
                ms = sorted(k.all_methods())
                if ms:
                    m = self.pick(ms)
                    call = ("call", ("prop", ov, m), [self.expr("num", 1) for _ in range(METHOD_ARITY[m])])
                    if self.returns_closure(k, m) and m not in k.shadows():
                        out.append(guarded(("print", ("call", call, []))))
                    else:
                        out.append(guarded(("print", call)))
            elif c < 68:
                fields = [f for f in k.all_fields() if f not in k.shadows()]
                if fields:
                    f = self.pick(fields)
                    out.append(("expr", ("assign", ("prop", ov, f), self.expr("num", 1))))
                    out.append(("print", ("prop", ov, f)))
            elif c < 75:
                # bound method passed around and called later
                ms = sorted(m for m in k.all_methods() if METHOD_ARITY[m] == 0 and not self.returns_closure(k, m)
                            and m not in k.shadows())
                if ms:
                    m = self.pick(ms)
                    b = self.fresh("b")
                    out.append(("let", b, ("prop", ov, m)))
                    out.append(("print", ("call", ("var", "call0"), [("var", b)])))
            elif c < 81:
                # undeclared property: read / write / invoke
                cc = self.i(0, 2)
                if cc == 0:
                    out.append(guarded(("print", ("prop", ov, "zz"))))
                elif cc == 1:
                    out.append(guarded(("expr", ("assign", ("prop", ov, "zz"), ("num", 1.0)))))
                else:
                    out.append(guarded(("print", ("call", ("prop", ov, "zz"), []))))
            elif c < 87:
                # a static is reached through its own class only: through a subclass (or the class of an instance of
                # one) the name is undefined, and the builtin Class methods (name) are what the subclass answers with
                anc = []
                kk = k
                while kk is not None:
                    anc.append(kk)
                    kk = kk.parent
                owners = [a for a in anc if a.statics]
                if owners:
                    owner = self.pick(owners)
                    sname, n = self.pick(owner.statics)
                    via = ("var", k.name) if self.chance(70) else ("call", ("prop", ov, "cls"), [])
                    call = ("print", ("call", ("prop", via, sname), [self.expr("num", 1) for _ in range(n)]))
                    out.append(call if owner is k else guarded(call))
            elif c < 89:
                out.append(("print", ("call", ("prop", ("call", ("prop", ov, "cls"), []), "name"), [])))
            elif c < 97 and any(self.has_poke(kk) for _, kk in objs):
                po, pk = self.pick([(oo, kk) for oo, kk in objs if self.has_poke(kk)])
                meth = "relay" if (self.has_relay(pk) and self.chance(70)) else "poke"
                out.append(guarded(("expr", ("call", ("prop", ("var", po), meth), [ov, self.expr("num", 1)]))))
                for f in FIELD_POOL:
                    if f not in k.shadows():
                        out.append(guarded(("print", ("prop", ov, f))))
            else:
                o2, k2 = self.pick(objs)
                out.append(("print", ("bin", "==", ov, ("var", o2))))
        return out


def class_program(cfg=None):
    @st.composite
    def strat(draw):
        g = GK(draw, cfg)
        return g.scenario()
    return strat()


class GI(GK):
    """Inline cache stress (C13): the class scenario plus classes created at run time inside a factory
    function (fresh class objects with equal or different layouts), dropped, garbage in between, and
    the shared call sites revisited."""

    def factory(self):
        out = []
        fname = self.fresh("mkclass")
        # two layouts: field order differs, one variant shadows the method with a field
        body = [
            ("class", "L", None, ("init", ["v"], [("expr", ("assign", ("prop", ("self",), "f1"), ("var", "v"))),
                                                   ("expr", ("assign", ("prop", ("self",), "f2"), ("bin", "+", ("var", "v"), ("num", 1.0))))]),
             [("m1", [], [("implicit", ("bin", "+", ("prop", ("self",), "f1"), ("var", "k")))]),
              ("m3", [], [("implicit", ("prop", ("self",), "f2"))])], []),
            ("class", "M", None, ("init", ["v"], [("expr", ("assign", ("prop", ("self",), "f2"), ("bin", "*", ("var", "v"), ("num", 2.0)))),
                                                   ("expr", ("assign", ("prop", ("self",), "f1"), ("var", "v")))]),
             [("m1", [], [("implicit", ("bin", "-", ("prop", ("self",), "f1"), ("var", "k")))]),
              ("m3", [], [("implicit", ("num", 77.0))])], []),
            ("class", "N", "L", ("init", ["v"], [("expr", ("call", ("super", "init"), [("var", "v")])),
                                                  ("expr", ("assign", ("prop", ("self",), "m3"), ("lambda", [], ("expr", ("bin", "+", ("var", "v"), ("num", 55.0))))))]),
             [("m1", [], [("implicit", ("bin", "*", ("call", ("super", "m1"), []), ("num", 10.0)))])], []),
            ("if", ("bin", "==", ("var", "k"), ("num", 0.0)), [("return", ("var", "L"))], None),
            ("if", ("bin", "==", ("var", "k"), ("num", 1.0)), [("return", ("var", "M"))], None),
            ("return", ("var", "N")),
        ]
        out.append(("fn", fname, ["k"], body))
        out.append(("fn", "junk", ["n"], [("let", "acc", ("list", [])),
                                          ("for", "i", ("call", ("prop", ("var", "n"), "times"), []),
                                           [("expr", ("call", ("prop", ("var", "acc"), "push"), [("list", [("var", "i"), ("str", "pad")])]))]),
                                          ("return", ("call", ("prop", ("var", "acc"), "len"), []))]))
        rounds = self.i(2, 6)
        for r in range(rounds):
            k = self.i(0, 2)
            cv, ov = self.fresh("C"), self.fresh("o")
            out.append(("let", cv, ("call", ("var", fname), [("num", float(k))])))
            out.append(("let", ov, ("call", ("var", cv), [self.expr("num", 1)])))
            # sometimes a second instance of the same class: the sites below then meet two receivers of one class whose
            # fields (and callable fields) differ
            ov2 = None
            if self.chance(50):
                ov2 = self.fresh("o")
                out.append(("let", ov2, ("call", ("var", cv), [("num", float(self.i(100, 120)))])))
            first = ov
            for _ in range(self.i(1, 3) + (2 if ov2 else 0)):
                if ov2:
                    ov = ov2 if ov == first else first
                c = self.i(0, 4)
                if c == 4:
                    out.append(("try", [("print", ("call", ("var", "site6"), [("var", ov), self.expr("num", 1)]))],
                                [("e", None, [("print", ("str", "no f2"))])]))
                elif c == 0:
                    out.append(("print", ("call", ("var", "site1"), [("var", ov)])))
                elif c == 1:
                    out.append(("print", ("call", ("var", "site3"), [("var", ov)])))
                elif c == 2:
                    out.append(("print", ("call", ("var", "site4"), [("var", ov), self.expr("num", 1)])))
                else:
                    out.append(("print", ("call", ("var", "site5"), [("var", ov)])))
            if ov2:
                # both instances, one after the other, at the zero argument call sites (m1 is a method, m3 a callable
                # field of its own per instance in one of the layouts)
                for o_ in (first, ov2, first):
                    out.append(("print", ("call", ("var", "site8"), [("var", o_)])))
                    if self.chance(30):
                        out.append(("print", ("call", ("var", "site5"), [("var", o_)])))
                if self.chance(50):
                    for o_ in (ov2, first):
                        out.append(("print", ("call", ("var", "site1"), [("var", o_)])))
            # drop the class and its instance, make garbage so a collection can reuse the addresses
            out.append(("expr", ("assign", ("var", cv), ("nil",))))
            out.append(("expr", ("assign", ("var", first), ("nil",))))
            if ov2:
                out.append(("expr", ("assign", ("var", ov2), ("nil",))))
            out.append(("print", ("call", ("var", "junk"), [("num", float(self.i(1, 40)))])))
        return out

    def scenario(self):
        out = GK.scenario(self)
        if self.chance(70):
            out.extend(self.factory())
        return out


def cache_program(cfg=None):
    @st.composite
    def strat(draw):
        g = GI(draw, cfg)
        return g.scenario()
    return strat()


# ======================================================================================
# exception profile (C04)
# ======================================================================================
BUILTIN_ERRORS = ["Error", "RuntimeError", "TypeError", "IndexError", "ValueError", "PropertyError", "ImportError"]


class GE(G):
    """Core generator plus try/catch/raise in every statement position."""

    def __init__(self, draw, cfg=None):
        G.__init__(self, draw, cfg or Cfg(max_depth=3, p_confuse=0, exceptions=True))
        self.user_errors = []  # (name, parent)
        self.raisers = []  # (name, nparams, error class)
        self.try_depth = 0

    def prelude(self):
        out = []
        for i in range(self.i(0, 3)):
            name = "E%d" % (i + 1)
            parent = "Error"
            if self.user_errors and self.chance(50):
                parent = self.pick(self.user_errors)[0]
            elif self.chance(30):
                parent = self.pick(BUILTIN_ERRORS)
            self.user_errors.append((name, parent))
            out.append(("class", name, parent, None, [], []))
            self.declare(Var(name, "class", False))
        # chains of raiser functions with parameters and locals
        prev = None
        for i in range(self.i(1, 4)):
            name = "r%d" % (i + 1)
            np_ = self.i(0, 3)
            params = ["a%d_%d" % (i, j) for j in range(np_)]
            body = []
            for j in range(self.i(0, 2)):
                body.append(("let", "l%d_%d" % (i, j), ("num", float(j))))
            if prev is None or self.chance(35):
                cls = self.err_class()
                body.append(("raise", ("call", ("var", cls), [("str", name)])))
            else:
                pname, pn, cls = prev
                body.append(("expr", ("call", ("var", pname), [("num", float(k)) for k in range(pn)])))
                body.append(("print", ("str", "unreachable " + name)))
            self.raisers.append((name, np_, cls))
            prev = (name, np_, cls)
            out.append(("fn", name, params, body))
            self.declare(Var(name, "raiser", False))
        return out

    def err_class(self):
        pool = BUILTIN_ERRORS + [n for (n, _) in self.user_errors]
        return self.pick(pool)

    def ancestors(self, cls):
        out = [cls]
        d = dict(self.user_errors)
        while cls in d:
            cls = d[cls]
            out.append(cls)
        if out[-1] != "Error":
            out.append("Error")
        return out

    def raise_source(self, depth):
        """Statements that (probably) raise. Returns (stmts, error class name or None)."""
        stmts, cls = self.raise_source0(depth)
        if self.fn_ret and len(stmts) == 1 and stmts[0][0] == "expr" and self.chance(60):
            # the raising expression is the operand of a return: it is evaluated while the try is still active
            stmts = [("return", stmts[0][1])]
        return stmts, cls

    def raise_source0(self, depth):
        c = self.i(0, 99)
        if c < 22:
            cls = self.err_class()
            return [("raise", ("call", ("var", cls), [("str", "m%d" % self.i(0, 9))]))], cls
        if c < 45 and self.raisers:
            name, np_, cls = self.pick(self.raisers)
            return [("expr", ("call", ("var", name), [self.expr("num", 1) for _ in range(np_)]))], cls
        if c < 60:
            # runtime faults
            k = self.i(0, 6)
            e = [("bin", "+", ("nil",), ("num", 1.0)),
                 ("index", ("list", [("num", 1.0)]), ("num", 5.0)),
                 ("index", ("map", []), ("str", "k")),
                 ("call", ("nil",), []),
                 ("prop", ("num", 1.0), "nope"),
                 ("call", ("prop", ("list", []), "nope"), []),
                 ("un", "-", ("str", "s"))][k]
            cls = ["RuntimeError", "IndexError", "KeyError", "RuntimeError", "RuntimeError", "PropertyError",
                   "RuntimeError"][k]
            return [("expr", e)], cls
        if c < 75 and self.raisers:
            # through a native callback
            name, np_, cls = self.pick(self.raisers)
            call = ("call", ("var", name), [("num", 0.0) for _ in range(np_)])
            k = self.i(0, 2)
            lst = ("list", [("num", 1.0), ("num", 2.0)])
            if k == 0:
                e = ("call", ("prop", ("call", ("prop", lst, "iter"), []), "each"), [("lambda", ["x"], ("block", [("expr", call)]))])
            elif k == 1:
                e = ("call", ("prop", ("call", ("prop", ("call", ("prop", lst, "iter"), []), "map"),
                                        [("lambda", ["x"], ("expr", call))]), "list"), [])
            else:
                e = ("call", ("prop", ("call", ("prop", ("call", ("prop", lst, "iter"), []), "filter"),
                                        [("lambda", ["x"], ("expr", call))]), "list"), [])
            return [("expr", e)], cls
        if c < 82 and self.in_loop and "break-continue" not in self.cfg.hazards:
            return [("break",) if self.chance(50) else ("continue",)], None
        if c < 90 and self.fn_ret:
            k = self.fn_ret[-1]
            return [("return", self.expr(k, 1)) if self.chance(70) or k != "nil" else ("return", None)], None
        return [], None

    def try_stmt(self, depth):
        self.try_depth += 1
        self.scopes.append([])
        body = []
        n_before = self.i(0, 2)
        for _ in range(n_before):
            body.extend(G.stmt(self, max(0, depth - 1)) if self.chance(60) else [("print", self.expr("num", 1))])
        if depth > 0 and self.try_depth < 3 and self.chance(25):
            body.append(self.try_stmt(depth - 1))
        src, cls = self.raise_source(depth)
        if self.chance(15) and src and src[0][0] not in ("break", "continue", "return"):
            src = [("if", self.expr("bool", 1), src, None)]
        body.extend(src)
        if self.chance(40):
            body.append(("print", ("str", "after")))
        self.scopes.pop()
        catches = []
        ncatch = self.i(1, 3)
        anc = self.ancestors(cls) if cls else ["Error"]
        for ci in range(ncatch):
            var = self.fresh("e")
            c = self.i(0, 9)
            if c < 3:
                ccls = None
            elif c < 7:
                ccls = self.pick(anc)
            else:
                ccls = self.err_class()
            self.scopes.append([Var(var, "err", False)])
            cb = [("print", ("call", ("prop", ("call", ("prop", ("var", var), "cls"), []), "name"), []))]
            if self.chance(50):
                cb.append(("print", ("bin", "+", ("str", "msg "), ("call", ("prop", ("prop", ("var", var), "message"), "len"), []) if False else ("str", ""))))
            for _ in range(self.i(0, 2)):
                cb.extend(G.stmt(self, 0))
            if self.chance(10) and self.raisers:
                # an error raised while handling
                name, np_, _c = self.pick(self.raisers)
                cb.append(("expr", ("call", ("var", name), [("num", 0.0) for _ in range(np_)])))
            self.scopes.pop()
            catches.append((var, ccls, cb))
        self.try_depth -= 1
        return ("try", body, catches)

    def after_try(self):
        """Read everything in scope, then declare and use two new variables."""
        out = []
        for v in self.visible(lambda v: v.kind in ("num", "str", "bool", "nil")):
            out.append(("print", ("var", v.name)))
        a, b = self.fresh("n"), self.fresh("n")
        out.append(("let", a, ("num", float(self.i(1, 9)))))
        out.append(("let", b, ("bin", "+", ("var", a), ("num", 1.0))))
        out.append(("print", ("bin", "*", ("var", a), ("var", b))))
        self.declare(Var(a, "num", True))
        self.declare(Var(b, "num", True))
        return out

    def callback_try_stmt(self):
        """A native runs a callback whose own body holds the try: the handler belongs to the callback's frame, the
        native call must go on with the next element after the catch, and the callback's result must stay its own."""
        k = float(self.i(1, 4))
        c = self.i(0, 9)
        if c < 5 or not self.raisers:
            cls = self.err_class()
            src = [("raise", ("call", ("var", cls), [("str", "cb%d" % self.i(0, 9))]))]
        elif c < 8:
            name, np_, cls = self.pick(self.raisers)
            src = [("expr", ("call", ("var", name), [("num", 0.0) for _ in range(np_)]))]
        else:
            src, cls = [("expr", ("index", ("list", []), ("num", 3.0)))], "IndexError"
        anc = self.ancestors(cls)
        cc = self.i(0, 9)
        ccls = None if cc < 4 else (self.pick(anc) if cc < 8 else "FormatError")
        ev = self.fresh("ce")
        inner_try = ("try", [("if", ("bin", "==", ("var", "x"), ("num", k)), src, None),
                             ("print", ("interp", ["cb ", ("var", "x")]))],
                     [(ev, ccls, [("print", ("str", "cb caught")), ("return", ("un", "-", ("num", 1.0)))])])
        lam = ("lambda", ["x"], ("block", [inner_try, ("return", ("bin", "*", ("var", "x"), ("num", 10.0)))]))
        it = ("call", ("prop", ("list", [("num", 1.0), ("num", 2.0), ("num", 3.0), ("num", 4.0)]), "iter"), [])
        form = self.i(0, 5)
        if form == 0:
            e = ("call", ("prop", ("call", ("prop", it, "map"), [lam]), "list"), [])
        elif form == 1:
            e = ("call", ("prop", ("call", ("prop", it, "filter"), [lam]), "list"), [])
        elif form == 2:
            e = ("call", ("prop", it, "each"), [lam])
        elif form == 3:
            e = ("call", ("prop", it, self.pick(["all", "any"])), [lam])
        elif form == 4:
            lam2 = ("lambda", ["a", "x"], ("block", [inner_try, ("return", ("bin", "+", ("var", "a"), ("var", "x")))]))
            e = ("call", ("prop", it, "reduce"), [("num", 0.0), lam2])
        else:
            e = ("call", ("prop", ("call", ("prop", ("call", ("prop", it, "map"), [lam]), "filter"),
                                  [("lambda", ["y"], ("expr", ("bin", ">", ("var", "y"), ("num", 0.0))))]), "list"), [])
        ov = self.fresh("oe")
        return ("try", [("print", e)], [(ov, None, [("print", ("call", ("prop", ("call", ("prop", ("var", ov), "cls"), []), "name"), []))])])

    def stmt(self, depth):
        if self.chance(30) and self.stmt_budget > 0:
            self.stmt_budget -= 2
            t = self.try_stmt(depth)
            return [t] + self.after_try()
        if self.chance(6) and self.stmt_budget > 0:
            self.stmt_budget -= 2
            return [self.callback_try_stmt()] + self.after_try()
        return G.stmt(self, depth)

    def fiber_interlude(self):
        """Module level: (optionally catch an error in main, then) launch a worker that catches an error of its own,
        reports through a channel and ends, while main waits for the report. The fiber that caught must be able to
        park on a channel and to complete like any other, and the worker's parameter and local keep their values."""
        n = self.fresh("w")
        ch, loc, ev = "ch_" + n, "loc_" + n, "e_" + n
        c = self.i(0, 9)
        if c < 5 or not self.raisers:
            cls = self.err_class()
            src = [("raise", ("call", ("var", cls), [("str", "in " + n)]))]
        elif c < 8:
            name, np_, cls = self.pick(self.raisers)
            src = [("expr", ("call", ("var", name), [("num", 0.0) for _ in range(np_)]))]
        else:
            src, cls = [("expr", ("index", ("list", []), ("num", 3.0)))], "IndexError"
        ccls = None if self.chance(40) else self.pick(self.ancestors(cls))
        tr = ("try", src + [("print", ("str", "unreachable " + n))],
              [(ev, ccls, [("print", ("interp", [n + " caught ", ("call", ("prop", ("call", ("prop", ("var", ev), "cls"), []), "name"), []),
                                                 " ", ("var", loc)]))])])
        send = ("expr", ("send", ("var", "c"), ("bin", "*", ("var", loc), ("num", 2.0))))
        # (what the worker does after its send is silent: whether it runs before or after main prints what it received
        # is the scheduler's business)
        quiet = ("try", src, [(ev, ccls, [("expr", ("assign", ("var", loc), ("bin", "+", ("var", loc), ("num", 1.0))))])])
        order = self.i(0, 2)
        body = [("let", loc, ("bin", "+", ("var", "p"), ("num", 1.0)))]
        body += [tr, send] if order == 0 else ([send, quiet] if order == 1 else [tr, send, quiet])
        out = [("let", ch, ("chan", ("num", float(self.i(1, 3))))), ("fn", n, ["c", "p"], body)]
        if self.chance(50):
            mv = self.fresh("me")
            out.append(("try", [("raise", ("call", ("var", "Error"), [("str", "main before " + n)]))],
                        [(mv, None, [("print", ("prop", ("var", mv), "message"))])]))
        out.append(("launch", ("call", ("var", n), [("var", ch), ("num", float(self.i(1, 9)))])))
        out.append(("print", ("recv", ("var", ch))))
        return out

    def scenario(self):
        out = self.prelude()
        top = self.stmts(self.i(2, 8), 3)
        if self.cfg.exc_fibers and self.chance(25):
            cut = self.i(0, len(top))
            top = top[:cut] + self.fiber_interlude() + top[cut:]
        out.extend(top)
        if self.chance(50):
            # a last raise, caught at module level or not: whatever handler bookkeeping the tries above left behind
            # (a try left by break / continue / return) decides where it goes
            final = ("raise", ("call", ("var", "Error"), [("str", "final")]))
            if self.chance(70):
                out.append(("try", [final], [("e", None, [("print", ("prop", ("var", "e"), "message"))])]))
                out.append(("print", ("str", "end")))
            else:
                out.append(final)
        return out


def exc_program(cfg=None):
    @st.composite
    def strat(draw):
        g = GE(draw, cfg)
        return g.scenario()
    return strat()


# ======================================================================================
# numeric profile (C14): special doubles reached by arithmetic
# ======================================================================================
SPECIALS = [
    ("un", "-", ("num", 0.0)),                                  # -0
    ("bin", "*", ("num", 0.0), ("un", "-", ("num", 1.0))),      # -0
    ("num", 0.0),
    ("bin", "/", ("num", 1.0), ("num", 0.0)),                   # inf
    ("bin", "/", ("un", "-", ("num", 1.0)), ("num", 0.0)),      # -inf
    ("bin", "/", ("num", 0.0), ("num", 0.0)),                   # NaN
    ("bin", "-", ("bin", "/", ("num", 1.0), ("num", 0.0)), ("bin", "/", ("num", 1.0), ("num", 0.0))),  # NaN
    ("num", 5e-324),
    ("bin", "/", ("num", 5e-324), ("num", 2.0)),                # underflow to 0
    ("num", 9007199254740993.0),
    ("bin", "+", ("num", 9007199254740992.0), ("num", 1.0)),
    ("bin", "+", ("num", 0.1), ("num", 0.2)),
    ("num", 0.3),
    ("bin", "*", ("num", 1e308), ("num", 10.0)),                # inf by overflow
    ("num", 1.0), ("num", 2.0), ("num", 0.5), ("un", "-", ("num", 1.0)),
    ("bin", "-", ("num", 0.0), ("num", 0.0)),
    ("un", "-", ("bin", "/", ("num", 0.0), ("num", 0.0))),      # -NaN
]


class GN(G):
    def __init__(self, draw, cfg=None):
        G.__init__(self, draw, cfg or Cfg(max_depth=2, p_confuse=0))

    def special(self):
        e = self.pick(SPECIALS)
        if self.chance(25):
            e = ("bin", self.pick(["+", "-", "*", "/"]), e, self.pick(SPECIALS))
        return e

    def scenario(self):
        out = []
        names = []
        for _ in range(self.i(2, 5)):
            v = self.fresh("x")
            out.append(("let", v, self.special()))
            names.append(v)
        for _ in range(self.i(3, 12)):
            a, b = ("var", self.pick(names)), ("var", self.pick(names))
            c = self.i(0, 99)
            if c < 25:
                out.append(("print", ("bin", self.pick(["==", "!=", "<", "<=", ">", ">="]), a, b)))
            elif c < 45:
                m = self.fresh("m")
                out.append(("let", m, ("map", [])))
                out.append(("expr", ("assign", ("index", ("var", m), a), ("num", 1.0))))
                out.append(("print", ("call", ("prop", ("var", m), "has"), [b])))
                out.append(("print", ("call", ("prop", ("var", m), "get"), [b])))
                out.append(("expr", ("assign", ("index", ("var", m), b), ("num", 2.0))))
                out.append(("print", ("call", ("prop", ("var", m), "len"), [])))
                out.append(("try", [("print", ("index", ("var", m), a))],
                            [("e", None, [("print", ("call", ("prop", ("call", ("prop", ("var", "e"), "cls"), []), "name"), []))])]))
            elif c < 55:
                out.append(("print", ("call", ("prop", ("map", [(a, ("num", 1.0)), (b, ("num", 2.0))]), "len"), [])))
            elif c < 68:
                out.append(("print", ("call", ("prop", ("list", [a, ("str", "s"), ("nil",)]), self.pick(["has", "index"])), [b])))
            elif c < 75:
                out.append(("print", ("call", ("prop", ("tuple", [a, ("true",)]), self.pick(["has", "index"])), [b])))
            elif c < 85:
                out.append(("print", ("interp", ["v=", a, " ", ("bin", "+", a, b)])))
            elif c < 92:
                out.append(("print", ("call", ("prop", a, self.pick(["floor", "ceil", "round", "str"])), [])))
            else:
                out.append(("print", ("tern", ("bin", "==", a, b), ("str", "eq"), ("str", "ne"))))
        if self.chance(30):
            # a map large enough to have several groups of buckets: keys that are equal must also hash alike, which a
            # handful of entries cannot tell (a small table probes one group whatever the upper hash bits say)
            size = self.pick([40, 130, 160, 300, 700])
            zero = self.pick([("num", 0.0), ("un", "-", ("num", 0.0)), ("bin", "*", ("num", 0.0), ("un", "-", ("num", 1.0)))])
            other = self.pick([("un", "-", ("num", 0.0)), ("num", 0.0), ("bin", "-", ("num", 0.0), ("num", 0.0))])
            mb = self.fresh("big")
            out.append(("let", mb, ("map", [])))
            out.append(("expr", ("assign", ("index", ("var", mb), zero), ("str", "zero"))))
            out.append(("for", "i", ("call", ("prop", ("num", float(size)), "times"), []),
                        [("if", ("bin", ">", ("var", "i"), ("num", 0.0)),
                          [("expr", ("assign", ("index", ("var", mb), ("var", "i")), ("var", "i")))], None)]))
            out.append(("print", ("call", ("prop", ("var", mb), "has"), [other])))
            out.append(("print", ("call", ("prop", ("var", mb), "get"), [other])))
            out.append(("expr", ("assign", ("index", ("var", mb), other), ("str", "again"))))
            out.append(("print", ("call", ("prop", ("var", mb), "len"), [])))
            out.append(("print", ("index", ("var", mb), zero)))
            out.append(("try", [("expr", ("call", ("prop", ("var", mb), "remove"), [other])), ("print", ("call", ("prop", ("var", mb), "has"), [zero]))],
                        [("e", None, [("print", ("call", ("prop", ("call", ("prop", ("var", "e"), "cls"), []), "name"), []))])]))
        return out


def numeric_program(cfg=None):
    @st.composite
    def strat(draw):
        g = GN(draw, cfg)
        return g.scenario()
    return strat()


# ======================================================================================
# repl profile (C19): histories of single line prompt entries
# ======================================================================================
class GR(G):
    def __init__(self, draw, cfg=None):
        G.__init__(self, draw, cfg or Cfg(max_depth=2, p_confuse=0))
        self.nums = []
        self.fns = []  # (name, nparams)
        self.classes = []  # (name, has_parent)
        self.objs = []
        self.users = []  # functions taking an object
        self.pending_fiber = []
        self.imported = 0

    def numx(self):
        c = self.i(0, 9)
        if self.nums and c < 4:
            return ("var", self.pick(self.nums))
        if self.fns and c < 6:
            f, n = self.pick(self.fns)
            return ("call", ("var", f), [("num", float(self.i(0, 9))) for _ in range(n)])
        if self.objs and c < 8:
            o = self.pick(self.objs)
            return self.pick([("call", ("prop", ("var", o), "get"), []), ("prop", ("var", o), "f"),
                              ("call", ("prop", ("var", o), "twice"), [])])
        return ("num", float(self.i(0, 20)))

    def nexpr(self):
        if self.chance(50):
            return ("bin", self.pick(["+", "-", "*"]), self.numx(), self.numx())
        return self.numx()

    def entry(self):
        """-> ("ok", stmt) | ("bad", text)"""
        c = self.i(0, 99)
        if c < 14:
            v = self.fresh("v")
            s = ("let", v, self.nexpr())
            self.nums.append(v)
            return ("ok", s)
        if c < 26:
            f = self.fresh("f")
            n = self.i(0, 2)
            params = [self.fresh("p") for _ in range(n)]
            body = ("bin", "+", self.nexpr(), ("var", params[0])) if params else self.nexpr()
            s = ("fn", f, params, [("return", body)])
            self.fns.append((f, n))
            return ("ok", s)
        if c < 38:
            k = self.fresh("K")
            parent = None
            if self.classes and self.chance(40):
                parent = self.pick(self.classes)
                methods = [("get", [], [("implicit", ("bin", "+", ("call", ("super", "get"), []), ("num", float(self.i(1, 5)))))])]
                s = ("class", k, parent, None, methods, [])
            else:
                s = ("class", k, None, ("init", ["a"], [("expr", ("assign", ("prop", ("self",), "f"), ("var", "a")))]),
                     [("get", [], [("implicit", ("prop", ("self",), "f"))]),
                      ("twice", [], [("implicit", ("bin", "*", ("call", ("prop", ("self",), "get"), []), ("num", 2.0)))])], [])
            self.classes.append(k)
            return ("ok", s)
        if c < 48 and self.classes:
            o = self.fresh("o")
            s = ("let", o, ("call", ("var", self.pick(self.classes)), [self.nexpr()]))
            self.objs.append(o)
            return ("ok", s)
        if c < 56:
            u = self.fresh("u")
            s = ("fn", u, ["o"], [("return", ("bin", "+", ("call", ("prop", ("var", "o"), "get"), []), ("prop", ("var", "o"), "f")))])
            self.users.append(u)
            return ("ok", s)
        if c < 60:
            # a fault caught by a clause that names no class (the implicit Error), in an entry of its own
            e = self.fresh("e")
            fault = self.pick([("index", ("list", []), ("num", 3.0)), ("bin", "+", ("nil",), ("num", 1.0)), ("prop", ("num", 1.0), "zz")])
            return ("ok", ("try", [("print", fault)], [(e, None, [("print", ("call", ("prop", ("call", ("prop", ("var", e), "cls"), []), "name"), []))])]))
        if c < 64:
            # fibers across entries: a channel, a worker, its launch and the receive each in an entry of their own
            # (the launched fiber has not run when its entry ends)
            step = len(self.pending_fiber)
            if step == 0:
                ch = self.fresh("ch")
                self.pending_fiber = [ch]
                return ("ok", ("let", ch, ("chan", ("num", 1.0))))
            if step == 1:
                w = self.fresh("w")
                self.pending_fiber.append(w)
                return ("ok", ("fn", w, ["c", "k"], [("expr", ("send", ("var", "c"), ("bin", "*", ("var", "k"), ("num", 2.0))))]))
            if step == 2:
                self.pending_fiber.append("launched")
                return ("ok", ("launch", ("call", ("var", self.pending_fiber[1]), [("var", self.pending_fiber[0]), self.nexpr()])))
            ch = self.pending_fiber[0]
            self.pending_fiber = []
            return ("ok", ("print", ("recv", ("var", ch))))
        if c < 68:
            # imports at the prompt (files: REPL_FILES): a module that does not compile (the entry fails, the session
            # goes on), one that does, and calls into it (its code has property / invoke sites of its own)
            if self.chance(35) and self.imported < 2:
                return ("bad", "import self.broken;")
            if not self.imported:
                self.imported = 1
                return ("ok", ("import", ["self", "good"], ("whole", None)))
            return ("ok", ("print", ("bin", "+", ("call", ("prop", ("var", "good"), "useg"), []), self.nexpr())))
        if c < 70 and (self.fns or self.users):
            # what kind of value a function defined at the prompt is (a plain function: it captures nothing, whatever
            # earlier entries' symbols it reads)
            f = self.pick([n for (n, _k) in self.fns] + list(self.users))
            return ("ok", ("print", ("call", ("prop", ("call", ("prop", ("var", f), "cls"), []), "name"), [])))
        if c < 72:
            if self.users and self.objs and self.chance(50):
                return ("ok", ("print", ("call", ("var", self.pick(self.users)), [("var", self.pick(self.objs))])))
            return ("ok", ("print", self.nexpr()))
        if c < 80 and self.nums:
            return ("ok", ("expr", ("assign", ("var", self.pick(self.nums)), self.nexpr())))
        if c < 86 and self.objs:
            return ("ok", ("expr", ("assign", ("prop", ("var", self.pick(self.objs)), "f"), self.nexpr())))
        k = self.i(0, 8)
        if k >= 5:
            # an entry that declares a module symbol and raises before it is assigned: the symbol stays behind
            # unusable, everything declared before and after must keep working
            name = self.fresh("zzd")
            return ("bad", ["let %s = Number.parse(\"x12\");", "let %s = [][3];", "let %s = nil + 1;",
                            "class %s : 5 {}"][k - 5] % name)
        return ("bad", ["print(1;", "let = 5;", "raise Error(\"x\");", "print(undeclared_zz);", "class { }", ][k])

    def forced(self, lo, hi):
        """An entry of the kind selected by the window [lo, hi) of entry()'s choice table."""
        saved = self.i
        first = [True]

        def fake(a, b, _saved=saved):
            if first[0] and (a, b) == (0, 99):
                first[0] = False
                return lo
            return _saved(a, b)
        self.i = fake
        try:
            return self.entry()
        finally:
            self.i = saved

    def history(self):
        out = []
        if self.chance(15):
            # the session's first entry declares a symbol of its own under the name of a builtin class the language
            # refers to implicitly (superclass of a class that names none, class of a blank catch)
            name = self.pick(["Object", "Error"])
            if self.chance(60):
                out.append(("ok", ("class", name, None, ("init", ["a"], [("expr", ("assign", ("prop", ("self",), "f"), ("var", "a")))]),
                                   [("get", [], [("implicit", ("prop", ("self",), "f"))]),
                                    ("twice", [], [("implicit", ("num", 0.0))])], [])))
                self.classes.append(name)
            else:
                out.append(("ok", ("let", name, self.nexpr())))
                self.nums.append(name)
        if self.chance(70):
            # a class, an instance and a function with property / invoke sites early in the session
            out.append(self.forced(26, 38))
            out.append(self.forced(38, 48))
            out.append(self.forced(48, 56))
        out.extend(self.entry() for _ in range(self.i(3, 15)))
        if self.users and self.objs:
            out.append(("ok", ("print", ("call", ("var", self.pick(self.users)), [("var", self.pick(self.objs))]))))
        # a fiber sequence that was begun is brought to its end (a launch without its receive prints nothing either way)
        while self.pending_fiber:
            out.append(self.forced(60, 64))
        if not self.imported and self.chance(20):
            # imports at the prompt, in this order at drawn places: (a module that does not compile,) a module that
            # does, a call into it
            seq = ([("bad", "import self.broken;")] if self.chance(65) else []) + \
                [("ok", ("import", ["self", "good"], ("whole", None))),
                 ("ok", ("print", ("bin", "+", ("call", ("prop", ("var", "good"), "useg"), []), ("num", float(self.i(0, 9))))))]
            at = 0
            for e in seq:
                at = self.i(at, len(out))
                out.insert(at, e)
                at += 1
        return out


REPL_FILES = {
    "/v/good.lay": [("export", ("class", "G", None, ("init", [], [("expr", ("assign", ("prop", ("self",), "v"), ("num", 3.0)))]),
                                [("get", [], [("return", ("prop", ("self",), "v"))])], [])),
                    ("export", ("fn", "useg", [], [("return", ("call", ("prop", ("call", ("var", "G"), []), "get"), []))]))],
}
REPL_BROKEN = {"/v/broken.lay": "let x = ;\n"}


def repl_history(cfg=None):
    @st.composite
    def strat(draw):
        g = GR(draw, cfg)
        return g.history()
    return strat()


# ======================================================================================
# modules profile (C17): acyclic graphs of files
# ======================================================================================
class GMod(G):
    def __init__(self, draw, cfg=None):
        G.__init__(self, draw, cfg or Cfg(max_depth=2, p_confuse=0))

    STD_NAMES = ["math", "io", "env", "regexp", "std"]

    def module(self, idx, earlier):
        """-> (name, stmts, exports {name: kind}, path below the package)"""
        name = "m%d" % idx
        if self.chance(25):
            # a project module that shares its name with a module of the standard library
            free = [n for n in self.STD_NAMES if n not in self.used_std]
            if free:
                name = self.pick(free)
                self.used_std.append(name)
        path = [name]
        if earlier and self.chance(35):
            # nested below an earlier module: importing it loads (and runs, once) every module on the way
            path = list(self.pick(earlier)[2]) + [name]
        self.paths[name] = path
        out = [("print", ("str", "run " + name))]
        if self.chance(30):
            # the module's body waits for a fiber of its own: whoever imports it must not continue before it is done
            # (the launched function is silent, so what is printed does not depend on the schedule)
            k = self.i(1, 9)
            out.append(("let", "ch_" + name, ("chan", None if self.chance(50) else ("num", 1.0))))
            out.append(("fn", "feed_" + name, ["c"], [("expr", ("send", ("var", "c"), ("num", float(k))))]))
            # one to three rounds: the body parks several times, so an importer that is woken more than once in the
            # meantime has to go back to sleep every time
            for rnd in range(self.i(1, 3)):
                out.append(("launch", ("call", ("var", "feed_" + name), [("var", "ch_" + name)])))
                out.append(("let", "got%d_%s" % (rnd, name), ("recv", ("var", "ch_" + name))))
                out.append(("print", ("interp", ["got ", ("var", "got%d_%s" % (rnd, name))])))
            self.blocking_modules = getattr(self, "blocking_modules", 0) + 1
        if self.chance(20):
            # the module reads fields whose names only native code gave to their class (Error's inner / backTrace): no
            # module compiled earlier spells them, and collections may have run since the class was built
            ev = "err_" + name
            out.append(("try", [("raise", ("call", ("var", "Error"), [("str", "in " + name), ("call", ("var", "Error"), [("str", "cause " + name)])]))],
                        [(ev, None, [("print", ("prop", ("prop", ("var", ev), "inner"), "message")),
                                     ("print", ("prop", ("prop", ("var", ev), "inner"), "inner")),
                                     ("print", ("bin", ">", ("call", ("prop", ("prop", ("var", ev), "backTrace"), "len"), []), ("num", 0.0)))])]))
        exports = {}
        priv = "priv%d" % idx
        out.append(("let", priv, ("num", float(self.i(1, 9) * 10))))
        uses = []
        seen = set()
        # imports of earlier modules, drawn form / multiplicity
        for (ename, eexp, _epath) in earlier:
            if not self.chance(60):
                continue
            for _ in range(self.i(1, 2)):
                before = len(out)
                u = self.import_of(ename, eexp, out, suffix="_%d" % idx)
                imp = out[-1]
                declared = [imp[2][1] or imp[1][-1]] if imp[2][0] == "whole" else [a or n for (n, a) in imp[2][1]]
                # redeclaring a module level name is a compile error: drop such an import
                if any(d in seen for d in declared) or len(set(declared)) != len(declared):
                    del out[before:]
                    continue
                seen.update(declared)
                uses.extend(u)
        n = self.i(1, 4)
        if self.chance(4):
            # more exports than the 256 an instance used to hold (a whole-module import is an instance of the module)
            for k in range(300):
                out.append(("export", ("let", "%s_w%d" % (name, k), ("num", float(k)))))
            exports["%s_w299" % name] = "num"
            exports["%s_w0" % name] = "num"
        for k in range(n):
            c = self.i(0, 9)
            ex = self.chance(70)
            if c < 3:
                nm = "%s_v%d" % (name, k)
                val = ("bin", "+", ("num", float(self.i(0, 9))), self.pick(uses)) if uses and self.chance(50) else ("num", float(self.i(0, 99)))
                s = ("let", nm, val)
                kind = "num"
            elif c < 7:
                nm = "%s_f%d" % (name, k)
                body = [("expr", ("opassign", "+", ("var", priv), ("num", 1.0))), ("return", ("bin", "+", ("var", priv), self.pick(uses) if uses and self.chance(40) else ("num", float(k))))]
                s = ("fn", nm, [], body)
                kind = "fn0"
            else:
                nm = "%s_K%d" % (name, k)
                s = ("class", nm, None, ("init", ["v"], [("expr", ("assign", ("prop", ("self",), "v"), ("var", "v")))]),
                     [("get", [], [("implicit", ("bin", "+", ("prop", ("self",), "v"), ("var", priv)))])], [])
                kind = "class"
            if ex:
                out.append(("export", s))
                exports[nm] = kind
            else:
                out.append(s)
                exports.setdefault("!" + nm, kind)  # private marker
        for u in uses[:2]:
            out.append(("print", u))
        return name, out, exports, path

    def import_of(self, ename, eexp, out, suffix=""):
        """Append an import of module ename; returns expressions (num valued) that use what was imported."""
        public = sorted(k for k in eexp if not k.startswith("!"))
        form = self.i(0, 2)
        uses = []
        if form == 0 or not public:
            alias = None
            if self.chance(40):
                alias = "%s_as%d%s" % (ename, self.i(0, 9), suffix)
            out.append(("import", ["self"] + self.paths[ename], ("whole", alias)))
            obj = ("var", alias or ename)
            for k in public:
                uses.append(self.use_of(("prop", obj, k), eexp[k], invoke=(obj, k)))
        else:
            picked = [k for k in public if self.chance(60)] or public[:1]
            syms = []
            for k in picked:
                alias = None
                if self.chance(40):
                    alias = "%s_r%d%s" % (k, self.i(0, 9), suffix)
                syms.append((k, alias))
                uses.append(self.use_of(("var", alias or k + ""), eexp[k]))
            out.append(("import", ["self"] + self.paths[ename], ("syms", syms)))
        return uses

    def use_of(self, ref, kind, invoke=None):
        if kind == "num":
            return ref
        if kind == "fn0":
            return ("call", ref, [])
        return ("call", ("prop", ("call", ref, [("num", 1.0)]), "get"), [])

    def scenario(self):
        k = self.i(1, 4)
        mods = []
        files = {}
        self.used_std = []
        self.paths = {}
        for idx in range(1, k + 1):
            name, stmts, exports, path = self.module(idx, [(n, e, p_) for (n, _s, e, p_) in mods])
            mods.append((name, stmts, exports, path))
            files["/v/%s.lay" % "/".join(path)] = stmts
        main = [("print", ("str", "run main"))]
        if self.chance(40):
            # fibers launched before the imports: when they finish they wake their launcher, which may be in the
            # middle of an import by then
            main.append(("fn", "bg", ["k"], [("let", "t", ("bin", "+", ("var", "k"), ("num", 1.0)))]))
            # a slow one finishes later than the others (it waits for a fiber of its own first): the importer is woken at
            # two different moments
            main.append(("fn", "echo", ["c", "n"], [("for", "i", ("call", ("prop", ("var", "n"), "times"), []),
                                                    [("expr", ("send", ("var", "c"), ("var", "i")))])]))
            main.append(("fn", "bgslow", ["n"], [("let", "c2", ("chan", None)), ("launch", ("call", ("var", "echo"), [("var", "c2"), ("var", "n")])),
                                                 ("for", "i", ("call", ("prop", ("var", "n"), "times"), []), [("let", "t", ("recv", ("var", "c2")))])]))
            for j in range(self.i(1, 3)):
                if self.chance(50):
                    main.append(("launch", ("call", ("var", "bgslow"), [("num", float(self.i(1, 3)))])))
                else:
                    main.append(("launch", ("call", ("var", "bg"), [("num", float(j))])))
        if self.chance(12) and mods:
            # an import that selects no symbol at all still is an import: the module is loaded (its body runs, once)
            name, _s, _e, _p = self.pick(mods)
            main.append(("import", ["self"] + self.paths[name], ("syms", [])))
            main.append(("print", ("str", "after empty selection")))
        # the library modules of the same names, imported before or after the project ones
        std_pending = [("import", ["std", n if n != "std" else "math"], ("whole", "std_" + n)) for n in self.used_std if self.chance(70)]
        if std_pending and self.chance(50):
            main.extend(std_pending)
            std_pending = []
        uses = []
        seen_names = set()
        for _ in range(self.i(1, 5)):
            name, _s, exports, _p = self.pick(mods)
            before = len(main)
            u = self.import_of(name, exports, main, suffix="_m%d" % len(main))
            # duplicate symbol names in one module are a compile error: drop an import that would redeclare
            imp = main[-1]
            declared = [imp[2][1] or imp[1][-1]] if imp[2][0] == "whole" else [a or n for (n, a) in imp[2][1]]
            if any(d in seen_names for d in declared) or len(set(declared)) != len(declared):
                del main[before:]
                continue
            seen_names.update(declared)
            uses.extend(u)
            if self.chance(40) and u:
                main.append(("print", self.pick(u)))
        main.extend(std_pending)
        for u in uses:
            main.append(("print", u))
        neg = self.i(0, 10)
        if neg == 10:
            # a module of the project asked for as a module of the standard library: the library has no such module
            cands = [m for m in mods if m[0] not in self.STD_NAMES and len(self.paths[m[0]]) == 1]
            if cands:
                name, _s, exports, _p = self.pick(cands)
                main.append(("import", ["std", name], ("whole", "neg_std")))
                main.append(("print", ("str", "unreachable")))
        elif neg == 0:
            name, _s, exports, _p = self.pick(mods)
            private = [k[1:] for k in exports if k.startswith("!")]
            if private:
                main.append(("import", ["self"] + self.paths[name], ("syms", [(self.pick(private), "zz_neg")])))
                main.append(("print", ("str", "unreachable")))
        elif neg == 1:
            main.append(("import", ["self", "nosuchmodule"], ("whole", None)))
            main.append(("print", ("str", "unreachable")))
        elif neg == 2:
            name, _s, exports, _p = self.pick(mods)
            main.append(("import", ["self"] + self.paths[name], ("syms", [("misspelt_zz", None)])))
            main.append(("print", ("str", "unreachable")))
        elif neg == 3:
            name, _s, exports, _p = self.pick(mods)
            private = [k[1:] for k in exports if k.startswith("!")]
            if private:
                alias = "neg_whole"
                main.append(("import", ["self"] + self.paths[name], ("whole", alias)))
                main.append(("print", ("prop", ("var", alias), self.pick(private))))
        elif neg == 5:
            # a loaded module is not a package: its bare name is no root for further imports
            cands = [m for m in mods if m[0] != "std"]
            if cands:
                name, _s, exports, _p = self.pick(cands)
                other, _s2, _e2, _p2 = self.pick(mods)
                main.append(("import", [self.paths[name][-1], other], ("whole", "neg_pkg")))
                main.append(("print", ("str", "unreachable")))
        elif neg == 4:
            # a module below one that exists, but whose own file does not
            name, _s, exports, _p = self.pick(mods)
            main.append(("import", ["self"] + self.paths[name] + ["nochild"], ("whole", None)))
            main.append(("print", ("str", "unreachable")))
        return {"files": files, "main": main}


def modules_program(cfg=None):
    @st.composite
    def strat(draw):
        g = GMod(draw, cfg)
        return g.scenario()
    return strat()


# ======================================================================================
# trace profile (C18): call chains with pinned lines
# ======================================================================================
class GT(G):
    def __init__(self, draw, cfg=None):
        G.__init__(self, draw, cfg or Cfg(max_depth=2, p_confuse=0))

    def filler(self):
        """0-2 harmless statements (they shift the lines of what follows)."""
        out = []
        for _ in range(self.i(0, 2)):
            v = self.fresh("t")
            c = self.i(0, 9)
            if c < 3:
                out.append(("let", v, ("num", float(self.i(0, 9)))))
            elif c < 4:
                # a declaration without an initialiser: the name must not stick to lambdas written later
                out.append(("let", v, None))
            elif c < 6:
                # natives that run with a stub frame of their own, before the raise: the frames of the natives that are
                # still active must keep their own names
                out.append(self.pick([("print", ("str", "f%d" % self.i(0, 9))),
                                      ("let", v, ("index", ("list", [("num", 1.0)]), ("num", 0.0))),
                                      ("let", v, ("call", ("prop", ("list", [("num", 1.0)]), "str"), []))]))
            else:
                # a string literal that spans several source lines: every line after it must still be counted right
                out.append(("let", v, ("mlstr", "\n".join("row%d" % k for k in range(self.i(2, 4))))))
        return out

    def scenario(self):
        depth = self.i(1, 6)
        out = []
        out.extend(self.filler())
        # error classes
        out.append(("class", "MyErr", "Error", None, [], []))
        out.append(("class", "SubErr", "MyErr", None, [], []))
        # innermost action
        act = self.i(0, 9)
        if act < 5:
            cls = self.pick(["Error", "MyErr", "SubErr", "ValueError", "TypeError"])
            if self.chance(30):
                raise_stmt = ("raise", ("call", ("var", cls), [("str", "msg%d" % self.i(0, 9)), ("call", ("var", "Error"), [("str", "inner%d" % self.i(0, 9))])]))
            else:
                raise_stmt = ("raise", ("call", ("var", cls), [("str", "msg%d" % self.i(0, 9))]))
            inner = self.filler() + [raise_stmt]
            kind = "raise"
        elif act < 8:
            fault = self.pick([("bin", "+", ("nil",), ("num", 1.0)), ("index", ("list", [("num", 1.0)]), ("num", 7.0)),
                               ("call", ("prop", ("num", 1.0), "nope"), []), ("call", ("num", 3.0), [])])
            inner = self.filler() + [("expr", fault)]
            kind = "fault"
        elif act < 9:
            inner = self.filler() + [("expr", ("call", ("var", "exit"), [("num", float(self.i(0, 40)))]))]
            kind = "exit"
        else:
            inner = self.filler() + [("print", ("str", "no error"))]
            kind = "none"
        # build the chain from the innermost frame outwards
        call = None  # expression that calls the previous level
        names = []
        report_at = [("print", ("prop", ("var", "e"), "message")),
                     ("for", "bt", ("prop", ("var", "e"), "backTrace"), [("print", ("var", "bt"))])]
        for lvl in range(depth):
            if lvl == 0:
                body = inner
            else:
                callst = [("expr", call)]
                c = self.i(0, 9)
                if c < 3 and kind in ("raise", "fault"):
                    # a handler on the way that does not match: the error passes through this frame, which must
                    # still be reported at the line of its call
                    callst = [("try", self.filler() + callst + self.filler(),
                               [("w", self.pick(["FormatError", "ChannelError", "DeadLockError"]), [("print", ("str", "wrong handler"))])]
                               + ([("w2", "SyntaxError", self.filler())] if self.chance(30) else []))]
                elif c < 4 and kind in ("raise", "fault"):
                    # caught half way up: the back trace covers the frames between the raise and this one
                    callst = [("try", self.filler() + callst, [("e", None, report_at)])]
                body = self.filler() + callst + self.filler()
            shape = self.i(0, 6) if not (kind == "exit" and False) else 0
            nm = "lv%d" % lvl
            if shape <= 1:
                out.append(("fn", nm, ["a"], body))
                call = ("call", ("var", nm), [("num", float(lvl))])
            elif shape == 2:
                out.append(("class", "C" + nm, None, None, [(nm, [], body)], []))
                call = ("call", ("prop", ("call", ("var", "C" + nm), []), nm), [])
            elif shape == 3:
                out.append(("class", "I" + nm, None, ("init", [], body), [], []))
                call = ("call", ("var", "I" + nm), [])
            elif shape == 4:
                out.append(("let", nm, ("lambda", ["x"], ("block", body))))
                call = ("call", ("var", nm), [("num", 1.0)])
            elif shape == 5:
                out.append(("class", "S" + nm, None, None, [], [(nm, [], body)]))
                call = ("call", ("prop", ("var", "S" + nm), nm), [])
            else:
                # through a native callback (each has a stub frame, map..list does not)
                out.append(("fn", nm, ["x"], body))
                if kind == "exit":
                    call = ("call", ("var", nm), [("num", 0.0)])
                elif self.chance(60):
                    it = ("call", ("prop", ("list", [("num", 1.0)]), "iter"), [])
                    which = self.pick(["each", "each", "all", "any", "reduce"])
                    if which == "reduce":
                        # the chain function takes one parameter: adapt it
                        call = ("call", ("prop", it, "reduce"), [("num", 0.0), ("lambda", ["acc", "x"], ("expr", ("call", ("var", nm), [("var", "x")])))])
                    else:
                        call = ("call", ("prop", it, which), [("var", nm)])
                else:
                    call = ("call", ("prop", ("call", ("prop", ("call", ("prop", ("list", [("num", 1.0)]), "iter"), []), "map"), [("var", nm)]), "list"), [])
            out.extend(self.filler())
            names.append(nm)
        # catch depth: where (if anywhere) the error is caught. Catching happens at module level around the outermost call
        c = self.i(0, 9)
        report = [("print", ("prop", ("var", "e"), "message")),
                  ("if", ("bin", "!=", ("prop", ("var", "e"), "inner"), ("nil",)), [("print", ("prop", ("prop", ("var", "e"), "inner"), "message"))], None),
                  ("for", "bt", ("prop", ("var", "e"), "backTrace"), [("print", ("var", "bt"))])]
        if c < 5 and kind in ("raise", "fault"):
            out.append(("try", self.filler() + [("expr", call)], [("e", None, report)]))
            out.append(("print", ("str", "after")))
        else:
            out.append(("expr", call))
            out.append(("print", ("str", "end")))
        if self.chance(15):
            out.append(("for", "k", ("call", ("prop", ("num", 400.0), "times"), []), [("print", ("interp", ["line ", ("var", "k")])), ("print", ("str", "x")), ("print", ("str", "y"))]))
        return out


def trace_program(cfg=None):
    @st.composite
    def strat(draw):
        g = GT(draw, cfg)
        return g.scenario()
    return strat()


# ======================================================================================
# collections profile (C11): histories of operations on one receiver
# ======================================================================================
IDX = [0.0, 1.0, 2.0, 3.0, 4.0, 5.0, 6.0, -1.0, -2.0, -3.0, -5.0, -6.0, -7.0, 0.5, 100.0, -100.0]
STR_SAMPLES = ["aBc", "héLLo", "λΛx", "a😀b", " pad ", "a,b,,c", "", "x", "αβγδ", "\tq\n"]


def N_(x):
    return ("num", float(x))


def L_(name, params, body_expr):
    return ("lambda", params, ("expr", body_expr))


class GColl(G):
    def __init__(self, draw, cfg=None):
        G.__init__(self, draw, cfg or Cfg(max_depth=2, p_confuse=0))

    def num(self):
        return N_(self.i(0, 9)) if self.chance(80) else N_(self.pick([0.5, -1, 100, 2.25]))

    def idx(self):
        v = self.pick(IDX)
        return ("un", "-", N_(-v)) if v < 0 else N_(v)

    def elem(self):
        c = self.i(0, 9)
        if c < 6:
            return self.num()
        if c < 8:
            return ("str", self.pick(["a", "b", "héλ", ""]))
        if c < 9:
            return ("nil",)
        return ("true",)

    def wrap(self, expr):
        """try { print(expr); } catch e { print(class name); }"""
        return ("try", [("print", expr)], [("e", None, [("print", ("call", ("prop", ("call", ("prop", ("var", "e"), "cls"), []), "name"), []))])])

    def wrap_stmt(self, stmt):
        return ("try", [stmt], [("e", None, [("print", ("call", ("prop", ("call", ("prop", ("var", "e"), "cls"), []), "name"), []))])])

    def callback(self, kind):
        """kind: map | pred | fold"""
        c = self.i(0, 9)
        if kind == "map":
            if c < 5:
                return L_("m", ["x"], ("bin", self.pick(["+", "*", "-"]), ("var", "x"), self.num()))
            if c < 8:
                return ("lambda", ["x"], ("block", [("print", ("interp", ["m ", ("var", "x")])), ("implicit", ("bin", "+", ("var", "x"), N_(1)))]))
            return ("lambda", ["x"], ("block", [("if", ("bin", "==", ("var", "x"), N_(self.i(0, 3))), [("raise", ("call", ("var", "Error"), [("str", "cb")]))], None), ("implicit", ("var", "x"))]))
        if kind == "pred":
            if c < 6:
                return L_("p", ["x"], ("bin", self.pick(["<", ">", "==", "!=", ">="]), ("var", "x"), self.num()))
            if c < 8:
                return ("lambda", ["x"], ("block", [("print", ("interp", ["p ", ("var", "x")])), ("implicit", ("bin", ">", ("var", "x"), N_(self.i(0, 3))))]))
            return L_("p", ["x"], self.pick([("nil",), ("true",), ("var", "x")]))
        return L_("f", ["a", "x"], ("bin", self.pick(["+", "*", "-"]), ("var", "a"), ("var", "x")))

    def source(self):
        c = self.i(0, 9)
        if c < 4:
            return ("call", ("prop", ("var", "l"), "iter"), [])
        if c < 6:
            return ("call", ("prop", N_(self.i(0, 5)), "times"), [])
        if c < 8:
            lo = self.i(0, 3)
            args = [N_(lo + self.i(0, 5))]
            if self.chance(50):
                args.append(self.pick([N_(1), N_(2), N_(0.5), N_(3)]))
            return ("call", ("prop", N_(lo), "until"), args)
        return ("call", ("prop", ("list", [self.num() for _ in range(self.i(0, 4))]), "iter"), [])

    def chain(self):
        e = self.source()
        for _ in range(self.i(1, 4)):
            c = self.i(0, 9)
            if c < 3:
                e = ("call", ("prop", e, "map"), [self.callback("map")])
            elif c < 5:
                e = ("call", ("prop", e, "filter"), [self.callback("pred")])
            elif c < 7:
                e = ("call", ("prop", e, "take"), [self.count_arg()])
            elif c < 8:
                e = ("call", ("prop", e, "skip"), [self.count_arg()])
            elif c < 9:
                e = ("call", ("prop", e, "zip"), [self.source()])
            else:
                # one to three further sources, some of them empty (an empty one in the middle must be stepped over)
                def src():
                    if self.chance(35):
                        return self.pick([("call", ("prop", ("list", []), "iter"), []), ("call", ("prop", N_(0), "times"), []),
                                          ("call", ("prop", ("call", ("prop", ("var", "l"), "iter"), []), "filter"), [L_("p", ["x"], ("false",))])])
                    return self.source()
                e = ("call", ("prop", e, "chain"), [src() for _ in range(self.pick([1, 1, 2, 3]))])
        t = self.i(0, 9)
        if t < 4:
            return ("call", ("prop", e, "list"), [])
        if t == 4:
            return ("call", ("prop", e, "len"), [])
        if t == 5:
            return ("call", ("prop", e, "first"), [])
        if t == 6:
            return ("call", ("prop", e, "last"), [])
        if t == 7:
            return ("call", ("prop", e, "reduce"), [N_(0), self.callback("fold")])
        if t == 8:
            return ("call", ("prop", e, self.pick(["all", "any"])), [self.callback("pred")])
        return ("call", ("prop", e, "each"), [("lambda", ["x"], ("block", [("print", ("interp", ["e ", ("var", "x")]))]))])

    def list_op(self):
        l = ("var", "l")
        c = self.i(0, 99)
        if c < 12:
            return [self.wrap(("call", ("prop", l, "push"), [self.elem() for _ in range(self.i(0, 3))]))]
        if c < 18:
            return [self.wrap(("call", ("prop", l, "pop"), []))]
        if c < 28:
            return [self.wrap(("call", ("prop", l, "insert"), [self.idx(), self.elem()]))]
        if c < 38:
            return [self.wrap(("call", ("prop", l, "remove"), [self.idx()]))]
        if c < 48:
            return [self.wrap(("index", l, self.idx()))]
        if c < 56:
            return [self.wrap(("assign", ("index", l, self.idx()), self.elem()))]
        if c < 59:
            return [self.wrap(("call", ("prop", l, "clear"), []))]
        if c < 65:
            return [self.wrap(("call", ("prop", l, self.pick(["has", "index"])), [self.elem()]))]
        if c < 75:
            args = [self.idx() for _ in range(self.i(0, 2))]
            return [self.wrap(("call", ("prop", l, "slice"), args))]
        if c < 79:
            return [self.wrap(("call", ("prop", l, "rev"), []))]
        if c < 82:
            return [self.wrap(("call", ("prop", l, "len"), []))]
        if c < 86:
            cc = self.i(0, 9)
            if cc < 6:
                cmpf = L_("c", ["a", "b"], ("bin", "-", ("var", "a"), ("var", "b")))
            elif cc < 8:
                cmpf = L_("c", ["a", "b"], ("bin", "-", ("var", "b"), ("var", "a")))
            elif cc < 9:
                # (the condition looks at both arguments: which element arrives as a and which as b is the sort's business)
                kk = N_(self.i(0, 5))
                cmpf = ("lambda", ["a", "b"], ("block", [("if", ("bin", "||", ("bin", ">", ("var", "a"), kk), ("bin", ">", ("var", "b"), kk)), [("raise", ("call", ("var", "ValueError"), [("str", "cmp")]))], None), ("implicit", ("bin", "-", ("var", "a"), ("var", "b")))]))
            else:
                # a comparator that counts its calls and fails at the k-th (k <= n - 1, the fewest comparisons any sort
                # of n elements makes): once it has failed it must not be called again, so the count ends at k
                n = self.i(3, 6)
                k = self.i(1, 2)
                cnt = self.fresh("calls")
                bad = self.pick([("raise", ("call", ("var", "ValueError"), [("str", "cmp")])), ("return", ("str", "x")),
                                 ("return", ("nil",))])
                cmpf = ("lambda", ["a", "b"], ("block", [("expr", ("opassign", "+", ("var", cnt), N_(1))),
                                                        ("if", ("bin", "==", ("var", cnt), N_(k)), [bad], None),
                                                        ("implicit", ("bin", "-", ("var", "a"), ("var", "b")))]))
                items = [N_(v) for v in range(n, 0, -1)]
                return [("let", cnt, N_(0)), self.wrap(("call", ("prop", ("list", items), "sort"), [cmpf])), ("print", ("var", cnt))]
            return [self.wrap(("call", ("prop", ("list", [self.num() for _ in range(self.i(0, 5))]), "sort"), [cmpf]))]
        if c < 90:
            return [self.wrap(("call", ("prop", l, self.pick(["push", "insert", "remove", "slice"])), [self.pick([("str", "x"), ("nil",), ("list", [])])]))]
        return [self.wrap(self.chain())]

    def count_arg(self):
        """Argument of take / skip: mostly a small count, sometimes negative, fractional or not finite."""
        if self.chance(85):
            return N_(self.i(0, 4))
        v = self.pick([-1, -5, 0.5, 2.5, "nan", "inf"])
        if v == "nan":
            return ("bin", "/", N_(0), N_(0))
        if v == "inf":
            return ("bin", "/", N_(1), N_(0))
        return ("un", "-", N_(-v)) if v < 0 else N_(v)

    def idx_int(self):
        v = self.pick([i for i in IDX if i == int(i)])
        return ("un", "-", N_(-v)) if v < 0 else N_(v)

    def map_key(self):
        return self.pick([N_(1), N_(2), N_(3), ("str", "a"), ("str", "b"), ("nil",), ("true",), ("false",), N_(0.5)])

    def map_op(self):
        m = ("var", "m")
        c = self.i(0, 99)
        if c < 20:
            return [self.wrap(("assign", ("index", m, self.map_key()), self.elem()))]
        if c < 35:
            return [self.wrap(("index", m, self.map_key()))]
        if c < 45:
            return [self.wrap(("call", ("prop", m, "get"), [self.map_key()]))]
        if c < 55:
            return [self.wrap(("call", ("prop", m, "set"), [self.map_key(), self.elem()]))]
        if c < 62:
            return [self.wrap(("call", ("prop", m, "insert"), [self.map_key(), self.elem()]))]
        if c < 72:
            return [self.wrap(("call", ("prop", m, "has"), [self.map_key()]))]
        if c < 84:
            return [self.wrap(("call", ("prop", m, "remove"), [self.map_key()]))]
        if c < 88:
            return [self.wrap(("call", ("prop", m, "len"), []))]
        if c < 92:
            # the map is changed while a for loop runs over it: the loop visits the entries present when it began
            # (observed through counts only: the visiting order is the hash order); enough insertions make the map's
            # table move
            cnt, jv = self.fresh("cnt"), self.fresh("j")
            body = [("expr", ("assign", ("var", cnt), ("bin", "+", ("var", cnt), N_(1))))]
            form = self.i(0, 2)
            if form == 0:
                body.append(("for", jv, ("call", ("prop", N_(self.pick([1, 3, 8, 40])), "times"), []),
                             [("expr", ("assign", ("index", m, ("interp", ["n", ("var", cnt), "_", ("var", jv)])), N_(1)))]))
            elif form == 1:
                body.append(("expr", ("call", ("prop", m, "remove"), [("index", ("var", "kv"), N_(0))])))
            else:
                body.append(("expr", ("assign", ("index", m, ("index", ("var", "kv"), N_(0))), N_(7))))
            return [("let", cnt, N_(0)), self.wrap_stmt(("for", "kv", m, body)), ("print", ("var", cnt)),
                    ("print", ("call", ("prop", m, "len"), []))]
        if c < 94:
            # an iterator made before the map is written to: what it says about its length and what it yields agree
            it = self.fresh("it")
            return [("let", it, ("call", ("prop", m, "iter"), [])),
                    self.wrap_stmt(("expr", ("assign", ("index", m, ("interp", ["late", ("call", ("prop", m, "len"), [])])), N_(1)))),
                    self.wrap(("call", ("prop", ("var", it), "len"), [])),
                    self.wrap(("call", ("prop", ("call", ("prop", ("var", it), "list"), []), "len"), []))]
        if c < 97:
            # a literal with drawn keys: with a key written twice the later entry is the one that stays
            pairs = [(self.map_key(), self.elem()) for _ in range(self.i(1, 4))]
            return [("expr", ("assign", m, ("map", pairs)))] + self.map_probe()
        # order insensitive fold over the entries
        return [self.wrap(("call", ("prop", ("call", ("prop", ("call", ("prop", m, "iter"), []), "map"), [L_("k", ["kv"], ("index", ("var", "kv"), N_(1)))]), "len"), []))]

    def map_probe(self):
        out = [("print", ("call", ("prop", ("var", "m"), "len"), []))]
        for k in [N_(1), N_(2), N_(3), ("str", "a"), ("str", "b"), ("nil",), ("true",), ("false",), N_(0.5)]:
            out.append(("print", ("call", ("prop", ("var", "m"), "get"), [k])))
        return out

    def str_op(self):
        s = ("var", "s")
        c = self.i(0, 99)
        if c < 15:
            return [self.wrap(("index", s, self.idx()))]
        if c < 35:
            return [self.wrap(("call", ("prop", s, "slice"), [self.idx() for _ in range(self.i(0, 2))]))]
        if c < 42:
            return [self.wrap(("call", ("prop", s, "len"), []))]
        if c < 52:
            return [self.wrap(("call", ("prop", s, "has"), [("str", self.pick(["a", "é", "λ", "", "😀", "zz", ","]))]))]
        if c < 60:
            return [self.wrap(("call", ("prop", s, self.pick(["upCase", "downCase", "trim", "trimStart", "trimEnd"])), []))]
        if c < 72:
            return [self.wrap(("call", ("prop", ("call", ("prop", s, "split"), [("str", self.pick([",", "a", "é", " ", "😀", "L"]))]), "list"), []))]
        if c < 82:
            return [self.wrap(("call", ("prop", ("call", ("prop", s, "iter"), []), "list"), []))]
        if c < 88:
            return [("expr", ("assign", s, ("bin", "+", s, ("str", self.pick(STR_SAMPLES))))), ("print", s)]
        if c < 94:
            return [self.wrap(("bin", self.pick(["<", "<=", ">", ">=", "=="]), s, ("str", self.pick(STR_SAMPLES))))]
        return [self.wrap(("call", ("prop", s, self.pick(["slice", "has", "split"])), [self.pick([("nil",), N_(1), ("list", [])])]))]

    def tuple_op(self):
        t = ("var", "t")
        c = self.i(0, 99)
        if c < 30:
            return [self.wrap(("index", t, self.idx()))]
        if c < 55:
            return [self.wrap(("call", ("prop", t, "slice"), [self.idx() for _ in range(self.i(0, 2))]))]
        if c < 70:
            return [self.wrap(("call", ("prop", t, self.pick(["has", "index"])), [self.elem()]))]
        if c < 80:
            return [self.wrap(("call", ("prop", t, "len"), []))]
        if c < 90:
            return [self.wrap(("call", ("prop", ("call", ("prop", t, "iter"), []), "list"), []))]
        return [self.wrap(("call", ("prop", ("var", "Tuple"), "collect"), [self.source()]))]

    def scenario(self):
        kind = self.pick(["list", "list", "map", "str", "tuple", "chain"])
        out = [("let", "l", ("list", [self.num() for _ in range(self.i(0, 5))]))]
        if kind == "map":
            out.append(("let", "m", ("map", [])))
        elif kind == "str":
            out.append(("let", "s", ("str", self.pick(STR_SAMPLES))))
        elif kind == "tuple":
            out.append(("let", "t", ("tuple", [self.elem() for _ in range(self.i(0, 5))])))
        for _ in range(self.i(3, 12)):
            if kind == "list":
                out.extend(self.list_op())
                out.append(("print", ("var", "l")))
            elif kind == "map":
                out.extend(self.map_op())
                out.extend(self.map_probe())
            elif kind == "str":
                out.extend(self.str_op())
                out.append(("print", ("var", "s")))
            elif kind == "tuple":
                out.extend(self.tuple_op())
                out.append(("print", ("var", "t")))
            else:
                out.append(self.wrap(self.chain()))
                out.append(("print", ("var", "l")))
        return [("kind", kind)] + out


def coll_program(cfg=None):
    @st.composite
    def strat(draw):
        g = GColl(draw, cfg)
        return g.scenario()[1:]
    return strat()


def coll_scenario(cfg=None):
    @st.composite
    def strat(draw):
        g = GColl(draw, cfg)
        return g.scenario()
    return strat()


# ======================================================================================
# alias profile (C10): identity of mutable objects under mutation
# ======================================================================================
ALIAS_KINDS = ["local", "module", "field", "elem", "elem2", "mapval", "capture", "tuple"]


class GA(G):
    """One or two objects (list / map / instance), several aliases of each in different storage kinds, a
    history of mutations through drawn aliases sized to cross list capacities 4 -> 8 -> 16, and identity
    observations after every step. Everything happens inside one function (so that locals are stack slots)
    or at module level (drawn)."""

    def __init__(self, draw, cfg=None):
        G.__init__(self, draw, cfg or Cfg(max_depth=2, p_confuse=0))

    UNSAFE = ("capture", "elem2", "keyed", "module")

    def scenario(self):
        """Objects, aliases created at the start and later, mutations through drawn aliases (directly or inside a
        helper function, so that a list can grow in a callee frame while aliases live in the caller's), identity
        observations after every step.

        With the known finding's hazard on, the generator keeps its own account of every list's length and capacity
        (a literal of n elements has capacity max(n, 4), measured on the tree; growth: cap = max(2 cap, needed)): an alias kept where the vm does not rewrite pointers after a move
        (closure capture, module variable, two levels deep, map key) may be created at any time, but from then on
        that list is only mutated within its capacity."""
        hazard_growth = "list-growth-with-mixed-alias-storage" in self.cfg.hazards
        in_fn = self.chance(70)
        body = []
        pre = [("class", "Box", None, ("init", ["v"], [("expr", ("assign", ("prop", ("self",), "v"), ("var", "v")))]), [], []),
               ("let", "modA", ("nil",)), ("let", "modB", ("nil",)),
               ("fn", "grow", ["l", "a", "b"], [("expr", ("call", ("prop", ("var", "l"), "push"), [("var", "a"), ("var", "b")])),
                                                ("return", ("var", "l"))]),
               ("fn", "ins", ["l", "v"], [("expr", ("call", ("prop", ("var", "l"), "insert"), [("num", 0.0), ("var", "v")])),
                                          ("return", ("var", "l"))]),
               ("fn", "same", ["x", "y"], [("return", ("bin", "==", ("var", "x"), ("var", "y")))])]
        objs = []
        counter = [0]
        restricted_module = hazard_growth and not in_fn
        # a local that any closure of the function captures lives in a box from its declaration on, and the vm does not
        # look into boxes when it rewrites pointers: whether captures occur is therefore decided up front
        will_capture = self.chance(25)
        self.meta = {"unsafe_growth": False}

        def add_alias(o, late):
            """-> statements declaring one more alias of object o (and registers it)"""
            name, kind = o["name"], o["kind"]
            kinds = [x for x in ALIAS_KINDS[1:] if x != "capture" or will_capture] + ["keyed", "keyed"]
            k = self.pick(kinds)
            if kind == "list" and hazard_growth and in_fn and not will_capture and k in self.UNSAFE and self.chance(70 if late else 85):
                # keep most lists free to grow for most of their history
                k = self.pick(["elem", "tuple", "mapval", "field"])
            if kind == "list" and restricted_module:
                k = "module"
            src = self.pick(o["aliases"])[1] if late else ("var", name)
            an = "%s_%s%d" % (name, k, counter[0])
            counter[0] += 1
            out = []
            if k == "module":
                slot = "modA" if o["index"] == 0 else "modB"
                out.append(("expr", ("assign", ("var", slot), src)))
                acc = ("var", slot)
                if any(a[0] == "module" for a in o["aliases"]):
                    return out
            elif k == "field":
                out.append(("let", an, ("call", ("var", "Box"), [src])))
                acc = ("prop", ("var", an), "v")
            elif k == "elem":
                out.append(("let", an, ("list", [("num", 7.0), src])))
                acc = ("index", ("var", an), ("num", 1.0))
            elif k == "elem2":
                out.append(("let", an, ("list", [("list", [src])])))
                acc = ("index", ("index", ("var", an), ("num", 0.0)), ("num", 0.0))
            elif k == "mapval":
                out.append(("let", an, ("map", [(("str", "k"), src)])))
                acc = ("index", ("var", an), ("str", "k"))
            elif k == "tuple":
                out.append(("let", an, ("tuple", [src, ("num", 1.0)])))
                acc = ("index", ("var", an), ("num", 0.0))
            elif k == "capture":
                out.append(("let", an, ("lambda", [], ("expr", src))))
                acc = ("call", ("var", an), [])
            else:  # keyed: a map that uses the object as key
                out.append(("let", an, ("map", [(src, ("str", "found" + name))])))
                o["keyed"].append(an)
                acc = None
            if kind == "list" and k in self.UNSAFE:
                o["unsafe"] = True
                if hazard_growth and in_fn:
                    o["frozen"] = True
            if acc is not None:
                o["aliases"].append((k, acc))
            return out

        for oi in range(self.i(1, 2)):
            kind = self.pick(["list", "list", "list", "map", "inst"])
            name = "o%d" % oi
            n0 = 0
            if kind == "list":
                n0 = self.i(0, 4)
                init = ("list", [("num", float(k)) for k in range(n0)])
            elif kind == "map":
                init = ("map", [])
            else:
                init = ("call", ("var", "Box"), [("num", 0.0)])
            body.append(("let", name, init))
            o = {"name": name, "kind": kind, "index": oi, "aliases": [("local" if in_fn else "module", ("var", name))],
                 "keyed": [], "len": n0, "cap": max(n0, 4), "unsafe": will_capture or not in_fn,
                 "frozen": hazard_growth and in_fn and will_capture}
            objs.append(o)
            for _ in range(self.i(1, 3)):
                body.extend(add_alias(o, False))
            # containers holding the object, for identity based membership tests
            body.append(("let", name + "_in", ("list", [("num", 1.0), ("var", name)])))
            body.append(("let", name + "_tup", ("tuple", [("var", name)])))

        def grows(o, k):
            ln, cap = o["len"], o["cap"]
            g = False
            for _ in range(k):
                ln += 1
                if ln > cap:
                    cap = max(cap * 2, ln)
                    g = True
            if g and o["unsafe"] and not o["frozen"]:
                self.meta["unsafe_growth"] = True
            return g, ln, cap

        def guarded(stmt):
            return ("try", [stmt], [("e", None, [])])

        for _ in range(self.i(4, 12)):
            o = self.pick(objs)
            name, kind = o["name"], o["kind"]
            if self.chance(15) and len(o["aliases"]) < 7:
                body.extend(add_alias(o, True))
            via = self.pick(o["aliases"])[1]
            c = self.i(0, 11)
            if kind == "list":
                helper_ok = not restricted_module
                force_k = None
                if not o["frozen"] and self.chance(35):
                    # steer to the capacity boundary: the generator knows exactly how many elements still fit
                    need = o["cap"] - o["len"] + 1
                    if need == 1:
                        c = self.pick([0, 6, 7, 7])  # push one / ins helper / insert
                        force_k = 1
                    elif need == 2 and self.chance(40):
                        c = 5  # grow helper pushes two
                    elif need <= 4:
                        c = 0
                        force_k = need
                if c < 5:
                    k = force_k or self.i(1, 4)
                    g, ln, cap = grows(o, k)
                    if g and o["frozen"]:
                        k = o["cap"] - o["len"]
                        g, ln, cap = grows(o, k)
                    if k > 0:
                        body.append(("expr", ("call", ("prop", via, "push"), [("num", float(self.i(0, 9))) for _ in range(k)])))
                        o["len"], o["cap"] = ln, cap
                        if g and self.chance(45) and len(o["aliases"]) < 7:
                            # an alias taken right after the list moved, from whatever handle the drawn place holds
                            body.extend(add_alias(o, True))
                    else:
                        body.append(("expr", ("call", ("prop", via, "pop"), [])))
                        o["len"] = max(0, o["len"] - 1)
                elif c < 7:
                    # growth inside a callee frame; the callee's (rewritten) alias comes back and is compared
                    g, ln, cap = grows(o, 2 if c == 5 else 1)
                    if (g and o["frozen"]) or not helper_ok:
                        body.append(guarded(("expr", ("assign", ("index", via, ("num", 0.0)), ("num", 42.0)))))
                    else:
                        call = ("call", ("var", "grow"), [via, ("num", 1.0), ("num", 2.0)]) if c == 5 else \
                            ("call", ("var", "ins"), [via, ("num", 3.0)])
                        other = self.pick(o["aliases"])[1]
                        form = self.i(0, 2)
                        if form == 0:
                            body.append(("print", ("bin", "==", call, other)))
                        elif form == 1:
                            body.append(("print", ("call", ("var", "same"), [call, other])))
                        else:
                            r = "%s_ret%d" % (name, counter[0])
                            counter[0] += 1
                            body.append(("let", r, call))
                            o["aliases"].append(("local", ("var", r)))
                        o["len"], o["cap"] = ln, cap
                elif c < 8:
                    g, ln, cap = grows(o, 1)
                    if g and o["frozen"]:
                        body.append(guarded(("expr", ("assign", ("index", via, ("num", 0.0)), ("num", 41.0)))))
                    else:
                        body.append(("expr", ("call", ("prop", via, "insert"), [("num", 0.0), ("num", 5.0)])))
                        o["len"], o["cap"] = ln, cap
                        if g and self.chance(45) and len(o["aliases"]) < 7:
                            body.extend(add_alias(o, True))
                elif c < 9:
                    body.append(("expr", ("call", ("prop", via, "pop"), [])))
                    o["len"] = max(0, o["len"] - 1)
                elif c < 10:
                    body.append(guarded(("expr", ("assign", ("index", via, ("num", 0.0)), ("num", 42.0)))))
                elif c < 11:
                    body.append(guarded(("expr", ("call", ("prop", via, "remove"), [("num", 0.0)]))))
                    o["len"] = max(0, o["len"] - 1)
                else:
                    body.append(("expr", ("call", ("prop", via, "clear"), [])))
                    o["len"] = 0
            elif kind == "map":
                if c < 8:
                    body.append(("expr", ("assign", ("index", via, ("num", float(self.i(0, 20)))), ("num", 1.0))))
                else:
                    body.append(guarded(("expr", ("call", ("prop", via, "remove"), [("num", float(self.i(0, 20)))]))))
            else:
                body.append(("expr", ("assign", ("prop", via, "v"), ("num", float(self.i(0, 99))))))
            if kind == "list" and self.chance(30) and len(o["aliases"]) < 7:
                # a new alias taken right after the mutation, before anything else touches the list
                body.extend(add_alias(o, True))
            # observations
            for _ in range(self.i(0, 3)):
                o2 = self.pick(objs)
                name2, kind2 = o2["name"], o2["kind"]
                a1 = self.pick(o2["aliases"])[1]
                a2 = self.pick(o2["aliases"])[1]
                oc = self.i(0, 9)
                if oc == 3 and len(objs) < 2:
                    oc = 0
                if 4 <= oc < 6 and not o2["keyed"]:
                    oc = 1
                if oc < 3:
                    body.append(("print", ("bin", "==", a1, a2)) if oc else ("print", ("call", ("var", "same"), [a1, a2])))
                elif oc < 4:
                    other = objs[0] if objs[1]["name"] == name2 else objs[1]
                    body.append(("print", ("bin", "==", a1, self.pick(other["aliases"])[1])))
                elif oc < 6:
                    body.append(("try", [("print", ("index", ("var", self.pick(o2["keyed"])), a1))],
                                 [("e", None, [("print", ("call", ("prop", ("call", ("prop", ("var", "e"), "cls"), []), "name"), []))])]))
                elif oc < 7:
                    body.append(("print", ("call", ("prop", ("var", name2 + "_in"), self.pick(["has", "index"])), [a1])))
                elif oc < 8:
                    body.append(("print", ("call", ("prop", ("var", name2 + "_tup"), self.pick(["has", "index"])), [a1])))
                else:
                    if kind2 == "list":
                        form = self.i(0, 5)
                        if form >= 4:
                            # natives that build a new list hand out a fresh object: never the receiver itself, and
                            # changing the copy leaves the original alone
                            cp = self.pick([("call", ("prop", a1, "slice"), []), ("call", ("prop", a1, "slice"), [("num", 0.0)]),
                                            ("call", ("prop", a1, "rev"), []),
                                            ("call", ("prop", ("call", ("prop", a1, "iter"), []), "list"), []),
                                            ("call", ("prop", a1, "sort"), [("lambda", ["x", "y"], ("expr", ("bin", "-", ("var", "x"), ("var", "y"))))])])
                            if form == 4:
                                body.append(("print", ("bin", "==", cp, a2)))
                                body.append(("print", ("call", ("prop", ("var", name2 + "_in"), "has"), [cp])))
                            else:
                                cn = "%s_copy%d" % (name2, counter[0])
                                counter[0] += 1
                                body.append(("let", cn, cp))
                                body.append(("expr", ("call", ("prop", ("var", cn), "push"), [("num", 99.0)])))
                                body.append(("print", ("call", ("prop", a2, "len"), [])))
                                body.append(("print", ("call", ("prop", ("var", cn), "len"), [])))
                        elif form == 0:
                            body.append(("print", ("call", ("prop", a1, "len"), [])))
                            body.append(("print", a2))
                        elif form == 1:
                            # reads through the list's own natives (each of them looks for a pending move first)
                            body.append(("try", [("print", ("index", a1, ("num", 0.0)))],
                                         [("e", None, [("print", ("str", "empty"))])]))
                        elif form == 2:
                            body.append(("print", ("call", ("prop", a1, self.pick(["has", "index"])), [("num", 5.0)])))
                        else:
                            body.append(("print", ("call", ("prop", ("call", ("prop", a1, "slice"), []), "len"), [])))
                    elif kind2 == "map":
                        body.append(("print", ("call", ("prop", a1, "len"), [])))
                    else:
                        body.append(("print", ("prop", a1, "v")))
        if in_fn:
            return pre + [("fn", "main", [], body), ("expr", ("call", ("var", "main"), []))]
        return pre + body


def alias_program(cfg=None):
    @st.composite
    def strat(draw):
        g = GA(draw, cfg)
        return g.scenario()
    return strat()


def alias_scenario(cfg=None):
    """-> (program, {"unsafe_growth": a list grew while an alias sat where the vm does not rewrite pointers})"""
    @st.composite
    def strat(draw):
        g = GA(draw, cfg)
        prog = g.scenario()
        return (prog, dict(g.meta))
    return strat()


# ======================================================================================
# strings profile (C09): equal contents reached by different creation routes
# ======================================================================================
STR_BASES = ["abc", "key", "push", "Box", "12", "1.5", "héλ", "a b", "x", "len", "init", "-3", "true", "nil",
             "ab,cd", "Error", "message", "0", "日本語", "ß", "[1, 2]", "(1, 2)", "{ 'a': 1 }", "{}", "[]", "Times"]
# contents that are the str() of a collection / iterator
COLL_STR = {
    "[1, 2]": ("list", [("num", 1.0), ("num", 2.0)]),
    "(1, 2)": ("tuple", [("num", 1.0), ("num", 2.0)]),
    "{ 'a': 1 }": ("map", [(("str", "a"), ("num", 1.0))]),
    "{}": ("map", []),
    "[]": ("list", []),
    "Times": ("call", ("prop", ("num", 3.0), "times"), []),
}


def _numlike(s):
    from .values import fmt_num
    try:
        v = float(s)
    except ValueError:
        return None
    if v != v or v in (float("inf"), float("-inf")) or s.strip() != s or "_" in s:
        return None
    return v if fmt_num(v) == s else None


class GS(G):
    """String values with chosen contents (a base and its near misses) built by many routes -- literal,
    concatenation, interpolation, slice, split, character iteration, reduce over pieces, number / bool / nil
    formatting, case mapping, trim, class and function names, another module -- stored, dropped, recreated,
    with garbage producing loops in between, and observed by ==, !=, ordering, map set / get / has / remove,
    list / tuple has / index."""

    def __init__(self, draw, cfg=None):
        G.__init__(self, draw, cfg or Cfg(max_depth=2, p_confuse=0))
        self.tmp = 0
        self.mod_exports = []  # (name, kind, expr) for the second module
        self.with_module = False
        self.in_module = False

    def pool(self):
        base = self.pick(STR_BASES)
        near = {base + self.pick(["d", " ", "0", "é"]), base[::-1], ""}
        if len(base) > 1:
            near.add(base[:-1])
            near.add(base[1:])
        if base.isascii():
            near.add(base.upper())
            near.add(base.lower())
        near.discard(base)
        near = sorted(near)
        k = min(len(near), self.i(1, 3))
        start = self.i(0, len(near) - 1)
        chosen = [near[(start + j) % len(near)] for j in range(k)]
        return [base] + chosen

    # ---- routes ----------------------------------------------------------------
    def piece(self, t, depth):
        if depth >= 2 or self.chance(60):
            return ("str", t)
        return self.route(t, depth + 1)[1]

    def routes_for(self, t, depth):
        r = ["lit", "concat", "interp", "slice", "split", "reduce", "trimmed"]
        if len(t) >= 1:
            r.append("chars")
        if len(t) == 1:
            r.append("index")
        if _numlike(t) is not None:
            r += ["numfmt", "numfmt", "numinterp"]
        if t in ("true", "nil"):
            r += ["kwfmt", "kwfmt"]
        if t in COLL_STR:
            r += ["collstr", "collstr", "collstr"]
        if t.isascii() and any(c.isalpha() for c in t) and (t == t.lower() or t == t.upper()):
            r.append("case")
        if t in ("Box", "key", "Error") and not self.in_module:
            r += ["name", "name"]
        if not self.in_module and "\n" not in t:
            # strings made by std.regexp natives (each match is a fresh string the native puts into a list of results)
            r += ["rx-captures"]
            if t and "," not in t:
                r += ["rx-all", "rx-all"]
        if self.with_module and depth == 0:
            r += ["module", "module"]
        return r

    def route(self, t, depth=0, avoid_lit=False):
        """-> (route name, expression whose value is the string t)"""
        rs = self.routes_for(t, depth)
        if avoid_lit:
            rs = [x for x in rs if x != "lit"]
        kind = self.pick(rs)
        n = len(t)
        if kind == "lit":
            return kind, ("str", t)
        if kind == "concat":
            k = self.i(0, n)
            if self.chance(30) and n >= 2:
                j = self.i(k, n)
                return kind, ("bin", "+", ("bin", "+", self.piece(t[:k], depth), self.piece(t[k:j], depth)), self.piece(t[j:], depth))
            return kind, ("bin", "+", self.piece(t[:k], depth), self.piece(t[k:], depth))
        if kind == "interp":
            k = self.i(0, n)
            j = self.i(k, n)
            parts = []
            if t[:k]:
                parts.append(t[:k])
            parts.append(self.piece(t[k:j], depth + 1))
            if t[j:]:
                parts.append(t[j:])
            return kind, ("interp", parts)
        if kind == "slice":
            p1 = self.pick(["", "x", "zz", "é", "日"])
            p2 = self.pick(["", "y", "ww", "λ"])
            args = [("num", float(len(p1))), ("num", float(len(p1) + n))]
            if p2 == "" and self.chance(50):
                args = args[:1]
            return kind, ("call", ("prop", ("str", p1 + t + p2), "slice"), args)
        if kind == "split":
            seps = [s for s in [",", ";", "--", "é", " "] if s not in t]
            sep = self.pick(seps)
            a = self.pick(["", "q", "left"])
            b = self.pick(["", "r", "right"])
            a = a if sep not in a else ""
            whole = a + sep + t + sep + b
            return kind, ("index", ("call", ("prop", ("call", ("prop", ("str", whole), "split"), [("str", sep)]), "list"), []),
                          ("num", 1.0))
        if kind == "reduce":
            k = self.i(0, n)
            pieces = [("str", t[:k]), ("str", t[k:])]
            return kind, ("call", ("prop", ("call", ("prop", ("list", pieces), "iter"), []), "reduce"),
                          [("str", ""), L_("j", ["a", "c"], ("bin", "+", ("var", "a"), ("var", "c")))])
        if kind == "chars":
            pad = self.pick(["", "p", "é"])
            src = ("str", pad + t)
            it = ("call", ("prop", src, "iter"), [])
            if pad:
                it = ("call", ("prop", it, "skip"), [("num", float(len(pad)))])
            return kind, ("call", ("prop", it, "reduce"),
                          [("str", ""), L_("j", ["a", "c"], ("bin", "+", ("var", "a"), ("var", "c")))])
        if kind == "trimmed":
            if t.strip() != t or t == "":
                return "concat", ("bin", "+", ("str", ""), ("str", t))
            m = self.pick(["trim", "trimStart", "trimEnd"])
            padded = {"trim": "  " + t + " ", "trimStart": " \t" + t, "trimEnd": t + "  "}[m]
            return kind, ("call", ("prop", ("str", padded), m), [])
        if kind == "index":
            p1 = self.pick(["", "x", "é日"])
            return kind, ("index", ("str", p1 + t + "z"), ("num", float(len(p1))))
        if kind == "numfmt":
            v = _numlike(t)
            if v < 0 or (v == 0 and t.startswith("-")):
                e = ("group", ("un", "-", ("num", -v)))
            elif self.chance(30) and v == int(v) and v >= 2:
                e = ("group", ("bin", "+", ("num", v - 1), ("num", 1.0)))
            else:
                e = ("num", v)
            return kind, ("call", ("prop", e, "str"), [])
        if kind == "numinterp":
            v = _numlike(t)
            e = ("un", "-", ("num", -v)) if v < 0 else ("num", v)
            return kind, ("interp", [e])
        if kind == "collstr":
            e = COLL_STR[t]
            if t != "Times" and self.chance(35):
                return kind, ("interp", [e])
            if e[0] in ("tuple", "map") or self.chance(50):
                e = ("group", e)
            return kind, ("call", ("prop", e, "str"), [])
        if kind == "kwfmt":
            e = ("true",) if t == "true" else ("nil",)
            if self.chance(50):
                return kind, ("interp", [e])
            return kind, ("call", ("prop", e, "str"), [])
        if kind == "case":
            if t == t.lower():
                return kind, ("call", ("prop", ("str", t.upper()), "downCase"), [])
            return kind, ("call", ("prop", ("str", t.lower()), "upCase"), [])
        if kind == "name":
            if t == "Box":
                if self.chance(50):
                    return kind, ("call", ("prop", ("var", "Box"), "name"), [])
                return kind, ("call", ("prop", ("call", ("prop", ("call", ("var", "Box"), [("num", 0.0)]), "cls"), []), "name"), [])
            if t == "Error":
                return kind, ("call", ("prop", ("var", "Error"), "name"), [])
            return kind, ("call", ("prop", ("var", "key"), "name"), [])
        if kind == "rx-all":
            self.uses_regexp = True
            k = self.pick([0, 1, 3, 4, 5, 9, 17, 40])
            words = ["w%d" % i for i in range(k)] + [t] + ["z%d" % i for i in range(self.i(0, 2))]
            return kind, ("index", ("call", ("prop", ("call", ("var", "RegExp"), [("str", "[^,]+")]), "matchAll"), [("str", ",".join(words))]),
                          ("num", float(k)))
        if kind == "rx-captures":
            self.uses_regexp = True
            # (one group in three patterns takes no part in the match: its capture is nil)
            pat = self.pick(["(x+)-(.*)-(y+)", "(x+)-(.*)-(y+)(z)?", "(q)?(x+)-(.*)-(y+)|(w+)"])
            return kind, ("index", ("call", ("prop", ("call", ("var", "RegExp"), [("str", pat)]), "captures"),
                                    [("str", "xx-" + t + "-yy")]), ("num", 3.0 if pat.startswith("(q)") else 2.0))
        if kind == "module":
            self.in_module = True
            _, inner = self.route(t, 1)
            self.in_module = False
            name = "e%d" % len(self.mod_exports)
            if self.chance(50):
                self.mod_exports.append((name, "let", inner))
                return kind, ("prop", ("var", "strs"), name)
            self.mod_exports.append((name, "fn", inner))
            return kind, ("call", ("prop", ("var", "strs"), name), [])
        raise AssertionError(kind)

    def wrap(self, expr):
        return ("try", [("print", expr)], [("e", None, [("print", ("call", ("prop", ("call", ("prop", ("var", "e"), "cls"), []), "name"), []))])])

    def scenario(self, allow_module=True):
        self.with_module = allow_module and self.chance(35)
        in_fn = self.chance(60)
        pool = self.pool()
        # contents that never appear as a whole literal can really be evicted from the intern table
        no_lit = set(t for t in pool if self.chance(50))
        pre = [("class", "Box", None, ("init", ["v"], [("expr", ("assign", ("prop", ("self",), "v"), ("var", "v")))]), [], []),
               ("fn", "key", [], [])]
        if self.with_module:
            pre.append(("import", ["self", "strs"], ("whole", None)))
        body = [("let", "m", ("map", [])), ("let", "held", ("list", [])), ("let", "n", ("num", 0.0))]
        live = {}  # var -> content (None once dropped)
        routes_used = set()
        counter = [0]

        def content():
            return pool[0] if self.chance(55) else self.pick(pool)

        def make(t):
            r, e = self.route(t, 0, avoid_lit=t in no_lit)
            routes_used.add(r)
            return e

        def operand():
            """-> expression (a stored string or a freshly built one)"""
            names = [v for v in live]
            if names and self.chance(55):
                v = self.pick(names)
                return ("var", v)
            return make(content())

        for _ in range(self.i(6, 16)):
            c = self.i(0, 19)
            if c < 5:
                v = "s%d" % counter[0]
                counter[0] += 1
                t = content()
                e = make(t)
                if self.chance(20):
                    body.append(("let", v, ("prop", ("call", ("var", "Box"), [e]), "v")))
                else:
                    body.append(("let", v, e))
                live[v] = t
            elif c < 7 and live:
                v = self.pick(sorted(live))
                body.append(("expr", ("assign", ("var", v), ("nil",))))
                del live[v]
            elif c < 9:
                # garbage: strings equal to pool contents (and others) created and dropped at once
                t = content()
                loop_body = [("let", "g", make(t))]
                if self.chance(50):
                    loop_body.append(("let", "h", ("bin", "+", ("str", "g"), ("call", ("prop", ("var", "i"), "str"), []))))
                if self.chance(30):
                    loop_body.append(("expr", ("assign", ("var", "n"), ("bin", "+", ("var", "n"),
                                                                    ("tern", ("bin", "==", ("var", "g"), make(t)), ("num", 1.0), ("num", 0.0))))))
                body.append(("for", "i", ("call", ("prop", ("num", float(self.pick([1, 3, 20, 60]))), "times"), []), loop_body))
                if self.chance(40):
                    body.append(("print", ("var", "n")))
            elif c < 11:
                body.append(("expr", ("assign", ("index", ("var", "m"), operand()), ("num", float(counter[0])))))
                counter[0] += 1
            elif c < 12:
                body.append(("expr", ("call", ("prop", ("var", "held"), "push"), [operand()])))
            elif c < 13:
                body.append(self.wrap(("call", ("prop", ("var", "m"), "remove"), [operand()])))
            else:
                x, y = operand(), operand()
                oc = self.i(0, 11)
                if oc < 3:
                    body.append(self.wrap(("bin", "==", x, y)))
                elif oc < 4:
                    body.append(self.wrap(("bin", "!=", x, y)))
                elif oc < 5:
                    body.append(self.wrap(("bin", self.pick(["<=", ">=", "<", ">"]), x, y)))
                elif oc < 7:
                    body.append(self.wrap(("index", ("var", "m"), y)))
                elif oc < 8:
                    body.append(self.wrap(("call", ("prop", ("var", "m"), self.pick(["has", "get"])), [y])))
                elif oc < 9:
                    body.append(self.wrap(("call", ("prop", ("var", "held"), self.pick(["has", "index"])), [y])))
                elif oc < 10:
                    body.append(self.wrap(("call", ("prop", ("tuple", [x, ("num", 1.0)]), self.pick(["has", "index"])), [y])))
                elif oc < 11:
                    body.append(("print", ("call", ("prop", ("var", "m"), "len"), [])))
                else:
                    body.append(self.wrap(("call", ("prop", x, "has"), [y])))
        body.append(("print", ("call", ("prop", ("var", "m"), "len"), [])))
        body.append(("print", ("var", "held")))
        if getattr(self, "uses_regexp", False):
            pre.insert(0, ("import", ["std", "regexp"], ("syms", [("RegExp", None)])))
        if in_fn:
            main = pre + [("fn", "main", [], body), ("expr", ("call", ("var", "main"), []))]
        else:
            main = pre + body
        files = {}
        if self.with_module:
            mod = [("let", "hidden", ("str", "private"))]
            for (name, kind, e) in self.mod_exports:
                if kind == "let":
                    mod.append(("export", ("let", name, e)))
                else:
                    mod.append(("export", ("fn", name, [], [("return", e)])))
            files["/v/strs.lay"] = mod
        return {"files": files, "main": main, "pool": pool, "routes": sorted(routes_used)}


def strings_scenario(cfg=None):
    @st.composite
    def strat(draw):
        return GS(draw, cfg).scenario()
    return strat()


def strings_program(cfg=None):
    @st.composite
    def strat(draw):
        return GS(draw, cfg).scenario(allow_module=False)["main"]
    return strat()


# ======================================================================================
# fiber profile: process networks (pbt/kpn.py, pbt/kpn_many.py) as plain programs for the differential checks
# ======================================================================================
def fiber_program(cfg=None):
    from .. import kpn, kpn_many
    hz = tuple(cfg.hazards) if cfg is not None else ()
    return st.one_of(kpn.network(False, hz).map(kpn.build_program),
                     kpn.network(True, hz).map(kpn.build_program),
                     kpn_many.many_network(hz).map(kpn_many.build_program))


# ======================================================================================
# cross module cache scenario (C13): call sites and classes spread over two modules
# ======================================================================================
class GX(G):
    """lib exports two unrelated classes with the same method and field names, and helper functions each holding
    one invoke / property site (declared in a drawn order, so their inline cache slot numbers vary); main imports
    them, derives classes whose methods call super (fused super invoke, with and without arguments), has call-site
    helpers of its own, and drives a drawn history of receivers through the sites of both modules. Every inline
    cache slot number therefore exists in both modules with a different meaning."""

    def __init__(self, draw, cfg=None):
        G.__init__(self, draw, cfg or Cfg(max_depth=2, p_confuse=0))

    def scenario(self):
        def ret(s):
            return [("implicit", ("str", s))] if self.chance(50) else [("return", ("str", s))]

        def cls(name, fields, tag):
            init = ("init", [], [("expr", ("assign", ("prop", ("self",), f), ("num", float(i + tag)))) for i, f in enumerate(fields)])
            methods = [(m, [], ret("%s.%s" % (name, m))) for m in ("m1", "m2", "m3")]
            methods.append(("m4", ["a"], [("return", ("bin", "+", ("str", "%s.m4 " % name), ("call", ("prop", ("var", "a"), "str"), [])))]))
            return ("class", name, None, init, methods, [])

        fa = ["a", "b"] if self.chance(50) else ["b", "a"]
        lib = [("export", cls("Base", fa, 1)), ("export", cls("Other", fa[::-1], 5))]
        helpers = [("call1", ("call", ("prop", ("var", "o"), "m1"), [])),
                   ("call2", ("call", ("prop", ("var", "o"), "m2"), [])),
                   ("call3", ("call", ("prop", ("var", "o"), "m3"), [])),
                   ("call4", ("call", ("prop", ("var", "o"), "m4"), [("num", 7.0)])),
                   ("geta", ("prop", ("var", "o"), "a")),
                   ("getb", ("prop", ("var", "o"), "b"))]
        # drawn order and a drawn subset, so that slot numbers differ from case to case
        order = list(range(len(helpers)))
        for i in range(len(order) - 1, 0, -1):
            j = self.i(0, i)
            order[i], order[j] = order[j], order[i]
        keep = [helpers[i] for i in order[:self.i(3, len(helpers))]]
        for (n, e) in keep:
            lib.append(("export", ("fn", n, ["o"], [("implicit", e)])))
        main = [("import", ["self", "lib"], ("syms", [("Base", None), ("Other", None)] + [(n, None) for (n, _e) in keep]))]
        # derived classes in main
        def derived(name, parent, pname):
            ms = []
            pool = ["m1", "m2", "m3"]
            for m in pool:
                c = self.i(0, 3)
                if c == 0:
                    continue  # inherited
                if c == 1:
                    ms.append((m, [], [("return", ("bin", "+", ("str", "%s.%s>" % (name, m)), ("call", ("super", m), [])))]))
                elif c == 2:
                    other = self.pick(pool)
                    ms.append((m, [], [("return", ("bin", "+", ("str", "%s.%s>>" % (name, m)), ("call", ("super", other), [])))]))
                else:
                    ms.append((m, [], ret("%s.%s" % (name, m))))
            if self.chance(50):
                ms.append(("m4", ["a"], [("return", ("bin", "+", ("str", name + ".m4>"), ("call", ("super", "m4"), [("var", "a")])))]))
            ms.append(("x", [], [("return", ("call", ("super", self.pick(pool)), []))]))
            init = ("init", [], [("expr", ("call", ("super", "init"), [])),
                                 ("expr", ("assign", ("prop", ("self",), "c"), ("num", 9.0)))])
            return ("class", name, parent, init, ms, [])
        main.append(derived("D1", "Base", "Base"))
        classes = ["Base", "Other", "D1"]
        if self.chance(60):
            main.append(derived("D2", self.pick(["D1", "Other"]), None))
            classes.append("D2")
        sites = [("s1", ("call", ("prop", ("var", "o"), "m1"), [])), ("s2", ("call", ("prop", ("var", "o"), "m2"), [])),
                 ("sx", ("call", ("prop", ("var", "o"), "x"), [])), ("sa", ("prop", ("var", "o"), "a"))]
        for i in range(len(sites) - 1, 0, -1):
            j = self.i(0, i)
            sites[i], sites[j] = sites[j], sites[i]
        for (n, e) in sites:
            main.append(("fn", n, ["o"], [("implicit", e)]))
        objs = []
        for k, c in enumerate(classes):
            main.append(("let", "o%d" % k, ("call", ("var", c), [])))
            objs.append(("o%d" % k, c))

        def guarded(e):
            return ("try", [("print", e)], [("e", None, [("print", ("call", ("prop", ("call", ("prop", ("var", "e"), "cls"), []), "name"), []))])])
        fns = [n for (n, _e) in keep] + [n for (n, _e) in sites]
        for _ in range(self.i(6, 18)):
            o, c = self.pick(objs)
            if self.chance(75):
                main.append(guarded(("call", ("var", self.pick(fns)), [("var", o)])))
            else:
                m = self.pick(["m1", "m2", "m3", "x"])
                main.append(guarded(("call", ("prop", ("var", o), m), [])))
        return {"files": {"/v/lib.lay": lib}, "main": main}


def cross_module_cache_scenario(cfg=None):
    @st.composite
    def strat(draw):
        return GX(draw, cfg).scenario()
    return strat()
