"""Shadowing pass: the generators give every declaration a fresh name, so no generated program ever shadows.
This pass renames drawn declarations (let, parameter, for item, catch variable, lambda parameter) to the name
of a variable declared in an enclosing scope. The result is a different program -- references to the outer
variable inside the renamed declaration's scope now mean the inner one -- whose meaning the reference
evaluator decides; the pass only avoids what the language rejects at compile time:

  * two declarations of one name in the same scope (parameters share the scope of the function body's top
    level; a for item / catch variable live in a scope of their own around the body),
  * a let whose initializer mentions its own name ('Cannot read local variable in its own initializer').
"""

VAR_DECL = "var"
FIXED_DECL = "fixed"


class _Scopes:
    def __init__(self):
        self.parent = {0: None}
        self.names = {0: {}}  # scope -> {name: kind}
        self.decls = []  # (name, scope, init expr or None)
        self.count = {}
        self.n = 1

    def new(self, parent):
        s = self.n
        self.n += 1
        self.parent[s] = parent
        self.names[s] = {}
        return s

    def declare(self, name, scope, init=None, fixed=False):
        self.names[scope][name] = FIXED_DECL if fixed else VAR_DECL
        self.count[name] = self.count.get(name, 0) + 1
        if not fixed:
            self.decls.append((name, scope, init))


def mentions(node, name):
    if isinstance(node, tuple):
        if len(node) == 2 and node[0] == "var" and node[1] == name:
            return True
        return any(mentions(c, name) for c in node)
    if isinstance(node, list):
        return any(mentions(c, name) for c in node)
    return False


def _expr(e, scope, sc):
    if isinstance(e, tuple):
        if e and e[0] == "lambda":
            ls = sc.new(scope)
            for p in e[1]:
                sc.declare(p, ls)
            body = e[2]
            if body[0] == "expr":
                _expr(body[1], ls, sc)
            else:
                _stmts(body[1], ls, sc)
            return
        for c in e:
            _expr(c, scope, sc)
    elif isinstance(e, list):
        for c in e:
            _expr(c, scope, sc)


def _stmts(stmts, scope, sc):
    for s in stmts:
        _stmt(s, scope, sc)


def _stmt(s, scope, sc):
    k = s[0]
    if k == "let":
        sc.declare(s[1], scope, init=s[2])
        _expr(s[2], scope, sc)
    elif k == "fn":
        sc.declare(s[1], scope, fixed=True)
        fs = sc.new(scope)
        for p in s[2]:
            sc.declare(p, fs)
        _stmts(s[3], fs, sc)
    elif k == "class":
        sc.declare(s[1], scope, fixed=True)
        _, _name, _parent, init, methods, statics = s
        for m in ([init] if init is not None else []) + list(methods) + list(statics):
            ms = sc.new(scope)
            for p in m[1]:
                sc.declare(p, ms)
            _stmts(m[2], ms, sc)
    elif k == "if":
        _expr(s[1], scope, sc)
        _stmts(s[2], sc.new(scope), sc)
        if len(s) > 3 and s[3] is not None:
            if isinstance(s[3], tuple):
                _stmt(s[3], scope, sc)
            else:
                _stmts(s[3], sc.new(scope), sc)
    elif k == "while":
        _expr(s[1], scope, sc)
        _stmts(s[2], sc.new(scope), sc)
    elif k == "for":
        _expr(s[2], scope, sc)
        fs = sc.new(scope)
        sc.declare(s[1], fs)
        _stmts(s[3], sc.new(fs), sc)
    elif k == "try":
        _stmts(s[1], sc.new(scope), sc)
        for (var, _cls, body) in s[2]:
            cs = sc.new(scope)
            sc.declare(var, cs)
            _stmts(body, sc.new(cs), sc)
    elif k in ("export",):
        _stmt(s[1], scope, sc)
    elif k == "import":
        pass
    else:
        for c in s[1:]:
            _expr(c, scope, sc)


def _rename(node, old, new):
    if isinstance(node, tuple):
        k = node[0] if node else None
        if k == "var" and len(node) == 2:
            return ("var", new) if node[1] == old else node
        if k == "let":
            return ("let", new if node[1] == old else node[1]) + tuple(_rename(c, old, new) for c in node[2:])
        if k == "fn":
            return ("fn", node[1], [new if p == old else p for p in node[2]], _rename(node[3], old, new))
        if k == "lambda":
            return ("lambda", [new if p == old else p for p in node[1]], _rename(node[2], old, new))
        if k == "for":
            return ("for", new if node[1] == old else node[1], _rename(node[2], old, new), _rename(node[3], old, new))
        if k == "try":
            return ("try", _rename(node[1], old, new),
                    [(new if v == old else v, c, _rename(b, old, new)) for (v, c, b) in node[2]])
        if k == "class":
            def meth(m):
                return (m[0], [new if p == old else p for p in m[1]], _rename(m[2], old, new))
            return ("class", node[1], node[2], meth(node[3]) if node[3] is not None else None,
                    [meth(m) for m in node[4]], [meth(m) for m in node[5]])
        if k in ("str", "num"):
            return node
        return tuple(_rename(c, old, new) for c in node)
    if isinstance(node, list):
        return [_rename(c, old, new) for c in node]
    return node


def shadowize(prog, picks):
    """Apply up to len(picks)//2 renames chosen by the integers in `picks`. -> (program, number of renames)"""
    done = 0
    for i in range(0, len(picks) - 1, 2):
        sc = _Scopes()
        _stmts(prog, 0, sc)
        cands = []
        for (name, scope, init) in sc.decls:
            if sc.count.get(name, 0) != 1 or scope == 0:
                continue
            outer = []
            p = sc.parent[scope]
            while p is not None:
                outer.extend(n for n, kind in sc.names[p].items() if kind == VAR_DECL)
                p = sc.parent[p]
            # ... nor may the rename turn another declaration of the target name into one whose initializer
            # mentions itself (let t = <uses name>, after name became t)
            clash = set(n2 for (n2, _s2, init2) in sc.decls if init2 is not None and mentions(init2, name))
            outer = sorted(set(t for t in outer if t != name and t not in sc.names[scope] and t not in clash
                               and (init is None or not mentions(init, t))))
            if outer:
                cands.append((name, outer))
        if not cands:
            break
        name, outer = cands[picks[i] % len(cands)]
        target = outer[picks[i + 1] % len(outer)]
        prog = _rename(prog, name, target)
        done += 1
    return prog, done


# ------------------------------------------------------------------------------------------------------------------
# Shadowing of global names: a user declaration (variable, parameter, class) may carry the name of a builtin class.
# Inside its scope the name means the user's declaration; everything the language does implicitly (a class without a
# superclass inherits the builtin Object, literals build builtin lists / maps / strings, runtime errors are builtin
# error classes) does not go through the user's scope and is unaffected.
GLOBAL_NAMES = ["Object", "Error", "List", "Map", "Number", "String", "Bool", "Nil", "Class", "Fun", "Iter", "Tuple",
                "Channel", "Module", "Method", "Closure", "Native", "TypeError", "IndexError", "ValueError"]


def _class_names(node, out):
    if isinstance(node, tuple):
        if node and node[0] == "class" and len(node) == 6 and isinstance(node[1], str):
            out.append(node[1])
        for c in node:
            _class_names(c, out)
    elif isinstance(node, list):
        for c in node:
            _class_names(c, out)


def _rename_class(node, old, new):
    if isinstance(node, tuple):
        k = node[0] if node else None
        if k == "var" and len(node) == 2:
            return ("var", new) if node[1] == old else node
        if k in ("str", "num"):
            return node
        if k == "class" and len(node) == 6:
            return ("class", new if node[1] == old else node[1], new if node[2] == old else node[2]) + \
                tuple(_rename_class(c, old, new) for c in node[3:])
        if k == "try":
            return ("try", _rename_class(node[1], old, new),
                    [(v, new if c == old else c, _rename_class(b, old, new)) for (v, c, b) in node[2]])
        return tuple(_rename_class(c, old, new) for c in node)
    if isinstance(node, list):
        return [_rename_class(c, old, new) for c in node]
    return node


def globalize(prog, picks, text, banned=()):
    """Rename up to len(picks)//2 user declarations to builtin class names that the program text does not mention.
    -> (program, [(old, new)])"""
    import re
    free = [g for g in GLOBAL_NAMES if g not in banned and not re.search(r"\b%s\b" % g, text)]
    done = []
    for i in range(0, len(picks) - 1, 2):
        if not free:
            break
        sc = _Scopes()
        _stmts(prog, 0, sc)
        variables = sorted(set(name for (name, _scope, _init) in sc.decls if sc.count.get(name, 0) == 1))
        classes = []
        _class_names(prog, classes)
        classes = sorted(set(c for c in classes if classes.count(c) == 1 and sc.count.get(c, 0) == 1))
        cands = [("v", n) for n in variables] + [("c", n) for n in classes]
        if not cands:
            break
        kind, name = cands[picks[i] % len(cands)]
        target = free.pop(picks[i + 1] % len(free))
        prog = _rename(prog, name, target) if kind == "v" else _rename_class(prog, name, target)
        done.append((name, target))
    return prog, done
