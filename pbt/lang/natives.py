"""Models of Laythe's builtin classes and functions for the reference evaluator.

Each native is a python function `(interp, recv, args) -> value`. Argument kind checks
happen before the body runs (laythe_core::signature): a wrong kind or count is a RuntimeError.
Behaviour here follows the fixtures under laythe_vm/fixture/std_lib and the unit tests in
laythe_lib; argument classes without such evidence raise `Unsupported` (the case is discarded).
"""
import math

from .values import (LBound, LChannel, LClass, LClosure, LInstance, LIter, LList, LMap, LModuleObj, LNative,
                     LObj, LTuple, fmt_num, is_falsey, key_of, values_equal)


def _model():
    from . import model
    return model


# ----------------------------------------------------------------------------- kinds
def kind_ok(kind, v):
    if kind == "any":
        return True
    if kind == "num":
        return isinstance(v, float)
    if kind == "str":
        return isinstance(v, str)
    if kind == "bool":
        return isinstance(v, bool)
    if kind == "callable":
        return isinstance(v, (LClosure, LBound, LNative, LClass))
    if kind == "iter":
        return isinstance(v, LIter)
    if kind == "list":
        return isinstance(v, LList)
    if kind == "class":
        return isinstance(v, LClass)
    raise AssertionError(kind)


def kind_name(v):
    if v is None:
        return "nil"
    if isinstance(v, bool):
        return "bool"
    if isinstance(v, float):
        return "number"
    if isinstance(v, str):
        return "string"
    return "object"


def call_native(interp, fn, recv, args):
    lo, hi = fn.arity
    n = len(args)
    if n < lo or (hi is not None and n > hi):
        if hi == lo:
            raise interp.error("RuntimeError", "%s expected %d argument(s) but received %d." % (fn.name, lo, n))
        if n < lo:
            raise interp.error("RuntimeError", "%s expected at least %d argument(s) but got %d." % (fn.name, lo, n))
        raise interp.error("RuntimeError", "%s expected at most %d argument(s) but got %d." % (fn.name, hi, n))
    kinds = fn.kinds
    for i, a in enumerate(args):
        k = kinds[i] if i < len(kinds) else (kinds[-1] if kinds and hi is None else "any")
        if not kind_ok(k, a):
            raise interp.error("RuntimeError", "%s's parameter required a %s but received a %s." %
                               (fn.name, k, kind_name(a)))
    if fn.stack:
        m = _model()
        saved = interp.frames
        interp.frames = saved + [m.Frame(fn.name, native=True, aid=saved[-1].aid, creator=saved[-1].creator)]
        try:
            return fn.fn(interp, recv, args)
        finally:
            interp.frames = saved
    return fn.fn(interp, recv, args)


# natives that run with a stub frame of their own (NativeMetaBuilder::with_stack in laythe_lib at the pinned commit):
# they appear in tracebacks and backtraces as 'native:0 in <name>()'
STACK_NATIVES = {
    "List": {"[]", "[]=", "insert", "remove", "str", "slice", "sort"},
    "Map": {"[]", "remove", "str"},
    "Tuple": {"[]", "str", "slice"},
    "String": {"[]", "slice"},
    "Iter": {"take", "skip", "map", "filter", "reduce", "each", "all", "any", "into"},
    "Number": {"until"},
    "Fun": {"call"}, "Method": {"call"}, "Native": {"call"},
    "Channel": {"close"},
    "<global>": {"print", "assertEq", "assertNe"},
}


# ----------------------------------------------------------------------------- iterators
class It(LIter):
    """Base of the iterator models. Subclasses implement _next() -> bool and set self.current."""
    __slots__ = ()

    def __init__(self, name):
        LIter.__init__(self, None, name)

    def next(self):
        return self._next()

    def size_hint(self):
        return None


class ListIt(It):
    __slots__ = ("lst", "i")

    def __init__(self, lst, name="List"):
        It.__init__(self, name)
        self.lst = lst
        self.i = 0

    def _next(self):
        items = self.lst.items
        if self.i < len(items):
            self.current = items[self.i]
            self.i += 1
            return True
        self.current = None
        return False

    def size_hint(self):
        return len(self.lst.items)


class TimesIt(It):
    __slots__ = ("max",)

    def __init__(self, n):
        It.__init__(self, "Times")
        self.current = -1.0
        self.max = n - 1.0

    def _next(self):
        if self.current < self.max:
            self.current += 1.0
            return True
        return False

    def size_hint(self):
        return int(self.max + 1.0)


class UntilIt(It):
    __slots__ = ("max", "stride")

    def __init__(self, lo, hi, stride):
        It.__init__(self, "Until")
        self.current = lo - stride
        self.max = hi - stride
        self.stride = stride

    def _next(self):
        if self.current < self.max:
            self.current += self.stride
            return True
        return False


class SeqIt(It):
    """Iterator over a precomputed python sequence (string chars, split parts, map entries)."""
    __slots__ = ("seq", "i", "hint")

    def __init__(self, seq, name, hint=None):
        It.__init__(self, name)
        self.seq = seq
        self.i = 0
        self.hint = hint

    def _next(self):
        if self.i < len(self.seq):
            self.current = self.seq[self.i]
            self.i += 1
            return True
        self.current = None
        return False

    def size_hint(self):
        return self.hint


class TakeIt(It):
    __slots__ = ("src", "n", "taken")

    def __init__(self, src, n):
        It.__init__(self, "Take")
        self.src = src
        self.n = n
        self.taken = 0

    def _next(self):
        if self.taken >= self.n or not self.src.next():
            return False
        self.taken += 1
        return True

    @property
    def current(self):
        return self.src.current

    @current.setter
    def current(self, v):
        pass

    def size_hint(self):
        h = self.src.size_hint()
        return None if h is None else min(h, self.n)


class SkipIt(It):
    __slots__ = ("src", "n")

    def __init__(self, src, n):
        It.__init__(self, "Skip")
        self.src = src
        self.n = n

    def _next(self):
        return self.src.next()

    @property
    def current(self):
        return self.src.current

    @current.setter
    def current(self, v):
        pass

    def size_hint(self):
        h = self.src.size_hint()
        return None if h is None else max(0, h - self.n)


class MapIt(It):
    __slots__ = ("src", "f", "interp")

    def __init__(self, interp, src, f):
        It.__init__(self, "Map")
        self.src = src
        self.f = f
        self.interp = interp

    def _next(self):
        if not self.src.next():
            return False
        self.current = self.interp.call_value(self.f, [self.src.current])
        return True

    def size_hint(self):
        return self.src.size_hint()


class FilterIt(It):
    __slots__ = ("src", "f", "interp")

    def __init__(self, interp, src, f):
        It.__init__(self, "Filter")
        self.src = src
        self.f = f
        self.interp = interp

    def _next(self):
        while self.src.next():
            cur = self.src.current
            if not is_falsey(self.interp.call_value(self.f, [cur])):
                self.current = cur
                return True
        return False


class ZipIt(It):
    __slots__ = ("srcs",)

    def __init__(self, srcs):
        It.__init__(self, "Zip")
        self.srcs = srcs

    def _next(self):
        vals = []
        for s in self.srcs:
            if not s.next():
                return False
            vals.append(s.current)
        self.current = LTuple(vals)
        return True

    def size_hint(self):
        m = None
        for s in self.srcs:
            h = s.size_hint()
            if h is None:
                return None
            m = h if m is None else min(m, h)
        return m if m is not None else (2 ** 64 - 1)


class ChainIt(It):
    __slots__ = ("srcs", "k")

    def __init__(self, srcs):
        It.__init__(self, "Chain")
        self.srcs = srcs
        self.k = 0

    def _next(self):
        while True:
            if self.k >= len(self.srcs):
                return False
            s = self.srcs[self.k]
            if s.next():
                self.current = s.current
                return True
            self.k += 1

    def size_hint(self):
        t = 0
        for s in self.srcs:
            h = s.size_hint()
            if h is None:
                return None
            t += h
        return t


# ----------------------------------------------------------------------------- helpers
def _int_index(interp, x, what):
    if x != x or x in (math.inf, -math.inf):
        raise _model().Unsupported("non finite index")
    if x != math.floor(x):
        raise interp.error("IndexError", what)
    return int(x)


def _seq_index(interp, n, x, what="list"):
    """Index normalisation of `[]`: negative counts from the end, out of range raises IndexError."""
    i = _int_index(interp, x, "Index must be an integer.")
    if i < 0:
        if -i > n:
            raise interp.error("IndexError", "Index out of bounds. %s was length %d but attempted to index with %d." % (what, n, i))
        return n + i
    if i >= n:
        raise interp.error("IndexError", "Index out of bounds. %s was length %d but attempted to index with %d." % (what, n, i))
    return i


def _slice_bounds(interp, n, args):
    def one(x):
        i = _int_index(interp, x, "Method slice takes integer parameters")
        if i >= 0:
            return i
        return max(0, n + i)
    start = one(args[0]) if len(args) > 0 else 0
    end = one(args[1]) if len(args) > 1 else n
    start = max(0, start)
    end = min(end, n)
    return start, end


def _find(items, v):
    for i, x in enumerate(items):
        if values_equal(x, v):
            return i
    return None


# ----------------------------------------------------------------------------- natives: global functions
def n_print(interp, recv, args):
    if not args:
        raise _model().Unsupported("print()")
    interp.res.out.append(" ".join(interp.str_of(a) for a in args))
    return None


def n_assert(interp, recv, args):
    if args[0] is True:
        return None
    raise interp.error("RuntimeError", "Assertion failed.")


def n_assert_eq(interp, recv, args):
    if values_equal(args[0], args[1]):
        return None
    raise interp.error("RuntimeError", "Assertion failed.")


def n_assert_ne(interp, recv, args):
    if not values_equal(args[0], args[1]):
        return None
    raise interp.error("RuntimeError", "Assertion failed.")


def n_exit(interp, recv, args):
    code = 0.0
    if args:
        code = args[0]
        if code != math.floor(code) or code < 0 or code > 65535:
            raise _model().Unsupported("exit code out of range")
    raise _model().ExitEx(int(code))


# ----------------------------------------------------------------------------- Object
def o_equals(interp, recv, args):
    return values_equal(recv, args[0])


def o_cls(interp, recv, args):
    return interp.class_of(recv)


def o_str(interp, recv, args):
    return interp.to_str(recv)


def o_is_a(interp, recv, args):
    if not isinstance(args[0], LClass):
        raise _model().Unsupported("isA? with a non class")
    return interp.class_of(recv).is_subclass(args[0])


# ----------------------------------------------------------------------------- List
def l_get(interp, recv, args):
    return recv.items[_seq_index(interp, len(recv.items), args[0])]


def l_set(interp, recv, args):
    recv.items[_seq_index(interp, len(recv.items), args[1])] = args[0]
    return args[0]


def l_len(interp, recv, args):
    return float(len(recv.items))


def _grow(interp, recv):
    while len(recv.items) > recv.cap:
        recv.cap = max(recv.cap * 2, len(recv.items))
        interp.count("list_grow")


def l_push(interp, recv, args):
    for a in args:
        recv.items.append(a)
        _grow(interp, recv)
    interp.count("list_push", len(args))
    return None


def l_pop(interp, recv, args):
    if recv.items:
        return recv.items.pop()
    return None


def l_remove(interp, recv, args):
    x = args[0]
    if x < 0:
        raise interp.error("IndexError", "Cannot remove at negative index")
    if x != x or (math.isfinite(x) and x != math.floor(x)):
        raise interp.error("IndexError", "Index must be an integer.")
    if not math.isfinite(x):
        raise interp.error("IndexError", "Cannot remove at index")
    i = int(x)
    if i >= len(recv.items):
        raise interp.error("IndexError", "Cannot remove at index")
    return recv.items.pop(i)


def l_insert(interp, recv, args):
    x = args[0]
    if x < 0:
        raise interp.error("IndexError", "Cannot insert at index")
    if x != x or (math.isfinite(x) and x != math.floor(x)):
        raise interp.error("IndexError", "Index must be an integer.")
    if not math.isfinite(x):
        raise interp.error("IndexError", "Cannot insert at index")
    i = int(x)
    if i > len(recv.items):
        raise interp.error("IndexError", "Cannot insert at index")
    recv.items.insert(i, args[1])
    _grow(interp, recv)
    return None


def l_clear(interp, recv, args):
    del recv.items[:]
    return None


def l_has(interp, recv, args):
    return _find(recv.items, args[0]) is not None


def l_index(interp, recv, args):
    i = _find(recv.items, args[0])
    return None if i is None else float(i)


def l_iter(interp, recv, args):
    return ListIt(recv)


def l_slice(interp, recv, args):
    s, e = _slice_bounds(interp, len(recv.items), args)
    return LList(list(recv.items[s:e])) if s <= e else LList([])


def l_rev(interp, recv, args):
    return LList(list(reversed(recv.items)))


def l_str(interp, recv, args):
    return interp.to_str(recv)


def l_sort(interp, recv, args):
    import functools
    f = args[0]

    def cmp(a, b):
        r = interp.call_value(f, [a, b])
        if not isinstance(r, float):
            # (the tree's message and class for this case: TypeError)
            raise interp.error("TypeError", "comparator must return a number")
        if r != r:
            raise _model().Unsupported("sort comparator returned NaN")
        return -1 if r < 0 else (1 if r > 0 else 0)

    return LList(sorted(recv.items, key=functools.cmp_to_key(cmp)))


def l_collect(interp, recv, args):
    it = args[0]
    if not isinstance(it, LIter):
        raise _model().Unsupported("List.collect of a non iterator")
    out = []
    while it.next():
        interp.tick()
        out.append(it.current)
    return LList(out)


# ----------------------------------------------------------------------------- Tuple
def t_get(interp, recv, args):
    return recv.items[_seq_index(interp, len(recv.items), args[0], "tuple")]


def t_len(interp, recv, args):
    return float(len(recv.items))


def t_has(interp, recv, args):
    return _find(recv.items, args[0]) is not None


def t_index(interp, recv, args):
    i = _find(recv.items, args[0])
    return None if i is None else float(i)


def t_iter(interp, recv, args):
    return SeqIt(list(recv.items), "Tuple", len(recv.items))


def t_slice(interp, recv, args):
    s, e = _slice_bounds(interp, len(recv.items), args)
    return LTuple(recv.items[s:e]) if s <= e else LTuple([])


def t_str(interp, recv, args):
    return interp.to_str(recv)


def t_collect(interp, recv, args):
    it = args[0]
    if not isinstance(it, LIter):
        raise _model().Unsupported("Tuple.collect of a non iterator")
    out = []
    while it.next():
        interp.tick()
        out.append(it.current)
    return LTuple(out)


# ----------------------------------------------------------------------------- Map
def m_get_index(interp, recv, args):
    e = recv.d.get(key_of(args[0]))
    if e is None:
        raise interp.error("KeyError", "Key not found. %s is not present" % _safe_str(interp, args[0]))
    return e[1]


def _safe_str(interp, v):
    try:
        return interp.to_str(v)
    except Exception:
        return "?"


def m_set_index(interp, recv, args):
    recv.d[key_of(args[1])] = (args[1], args[0])
    return args[0]


def m_get(interp, recv, args):
    e = recv.d.get(key_of(args[0]))
    return None if e is None else e[1]


def m_set(interp, recv, args):
    k = key_of(args[0])
    old = recv.d.get(k)
    recv.d[k] = (args[0], args[1])
    return None if old is None else old[1]


def m_has(interp, recv, args):
    return key_of(args[0]) in recv.d


def m_remove(interp, recv, args):
    k = key_of(args[0])
    if k not in recv.d:
        raise interp.error("KeyError", "Key not found in map.")
    return recv.d.pop(k)[1]


def m_len(interp, recv, args):
    return float(len(recv.d))


def m_str(interp, recv, args):
    return interp.to_str(recv)


def m_iter(interp, recv, args):
    if len(recv.d) > 1:
        interp.label("map_iter_unordered")
    return SeqIt([LList([k, v]) for (k, v) in recv.d.values()], "Map", len(recv.d))


# ----------------------------------------------------------------------------- String
def s_str(interp, recv, args):
    return recv


def s_len(interp, recv, args):
    return float(len(recv))


def s_get(interp, recv, args):
    x = args[0]
    if x != x or x in (math.inf, -math.inf):
        raise _model().Unsupported("non finite index")
    if x != math.floor(x):
        raise interp.error("IndexError", "slice methods takes integer parameters")
    i = int(x)
    n = len(recv)
    if i < 0:
        i = n + i
        if i < 0:
            raise interp.error("IndexError", "Index out of bounds.")
    if i >= n:
        raise interp.error("IndexError", "Index out of bounds.")
    return recv[i]


def s_has(interp, recv, args):
    return args[0] in recv


def s_up(interp, recv, args):
    return recv.upper()


def s_down(interp, recv, args):
    return recv.lower()


def s_split(interp, recv, args):
    sep = args[0]
    if sep == "":
        raise _model().Unsupported("split on the empty string")
    return SeqIt(recv.split(sep), "Split", None)


def s_slice(interp, recv, args):
    n = len(recv)

    def one(x):
        if x != x or x in (math.inf, -math.inf):
            raise _model().Unsupported("non finite index")
        if x != math.floor(x):
            raise interp.error("IndexError", "slice methods takes integer parameters")
        i = int(x)
        if i >= 0:
            return min(i, n)
        return max(0, n + i)

    s = one(args[0]) if len(args) > 0 else 0
    e = one(args[1]) if len(args) > 1 else n
    return recv[s:e] if s <= e else ""


_WS = set("\t\n\x0b\x0c\r \x85\xa0\u1680\u2028\u2029\u202f\u205f\u3000") | set(chr(c) for c in range(0x2000, 0x200B))


def _is_ws(ch):
    # rust's char::is_whitespace (the White_Space property)
    return ch in _WS


def s_trim(interp, recv, args):
    return s_trim_end(interp, s_trim_start(interp, recv, args), args)


def s_trim_start(interp, recv, args):
    i = 0
    while i < len(recv) and _is_ws(recv[i]):
        i += 1
    return recv[i:]


def s_trim_end(interp, recv, args):
    i = len(recv)
    while i > 0 and _is_ws(recv[i - 1]):
        i -= 1
    return recv[:i]


def s_iter(interp, recv, args):
    return SeqIt(list(recv), "String", None)


# ----------------------------------------------------------------------------- Number
def num_str(interp, recv, args):
    return fmt_num(recv)


def num_times(interp, recv, args):
    if recv < 0 or recv != math.floor(recv):
        raise interp.error("ValueError", "times requires a positive integer.")
    if recv > 1e6:
        raise _model().Unsupported("huge times")
    return TimesIt(recv)


def num_until(interp, recv, args):
    stride = args[1] if len(args) > 1 else 1.0
    if stride <= 0:
        raise interp.error("ValueError", "until requires a positive stride.")
    if stride != stride or args[0] != args[0] or recv != recv:
        raise _model().Unsupported("NaN in until")
    if (args[0] - recv) / stride > 1e6:
        raise _model().Unsupported("huge until")
    return UntilIt(recv, args[0], stride)


def num_floor(interp, recv, args):
    if not math.isfinite(recv):
        return recv
    r = float(math.floor(recv))
    return math.copysign(0.0, recv) if r == 0.0 else r


def num_ceil(interp, recv, args):
    if not math.isfinite(recv):
        return recv
    r = float(math.ceil(recv))
    return math.copysign(0.0, recv) if r == 0.0 else r


def num_round(interp, recv, args):
    if not math.isfinite(recv):
        return recv
    # rust rounds half away from zero. Not floor(|x| + 0.5): that sum is itself rounded (2^53 - 1 + 0.5 -> 2^53,
    # 0.49999999999999994 + 0.5 -> 1); the fractional part |x| - floor(|x|) is exact
    ax = abs(recv)
    f = math.floor(ax)
    r = f + (1 if ax - f >= 0.5 else 0)
    return math.copysign(float(r), recv)


def num_cmp(interp, recv, args):
    raise _model().Unsupported("Number.cmp")


# ----------------------------------------------------------------------------- Iter
def _consume(interp, it):
    while it.next():
        interp.tick()
        yield it.current


def it_next(interp, recv, args):
    return recv.next()


def it_current(interp, recv, args):
    return recv.current


def it_iter(interp, recv, args):
    return recv


def it_first(interp, recv, args):
    if recv.next():
        return recv.current
    return None


def it_last(interp, recv, args):
    r = None
    for v in _consume(interp, recv):
        r = v
    return r


def it_take(interp, recv, args):
    x = args[0]
    if not math.isfinite(x) or x != math.floor(x):
        # (the vm's test is fract() != 0: NaN and the infinities have a NaN fraction)
        raise interp.error("ValueError", "Method skip takes an integer parameter.")
    if x < 0:
        raise interp.error("ValueError", "Method take takes an non negative integer parameter.")
    return TakeIt(recv, int(x))


def it_skip(interp, recv, args):
    x = args[0]
    if not math.isfinite(x) or x != math.floor(x) or x < 0:
        raise interp.error("ValueError", "Method skip takes an non negative integer parameter.")
    n = int(x)
    k = 0
    while k < n and recv.next():
        interp.tick()
        k += 1
    return SkipIt(recv, n)


def it_map(interp, recv, args):
    return MapIt(interp, recv, args[0])


def it_filter(interp, recv, args):
    return FilterIt(interp, recv, args[0])


def it_reduce(interp, recv, args):
    acc = args[0]
    f = args[1]
    for v in _consume(interp, recv):
        acc = interp.call_value(f, [acc, v])
    return acc


def it_len(interp, recv, args):
    h = recv.size_hint()
    if h is not None:
        return float(h)
    n = 0
    for _ in _consume(interp, recv):
        n += 1
    return float(n)


def it_each(interp, recv, args):
    f = args[0]
    for v in _consume(interp, recv):
        interp.call_value(f, [v])
    return None


def it_zip(interp, recv, args):
    return ZipIt([recv] + list(args))


def it_chain(interp, recv, args):
    return ChainIt([recv] + list(args))


def it_all(interp, recv, args):
    f = args[0]
    for v in _consume(interp, recv):
        if is_falsey(interp.call_value(f, [v])):
            return False
    return True


def it_any(interp, recv, args):
    f = args[0]
    for v in _consume(interp, recv):
        if not is_falsey(interp.call_value(f, [v])):
            return True
    return False


def it_list(interp, recv, args):
    out = []
    for v in _consume(interp, recv):
        out.append(v)
    return LList(out)


def it_into(interp, recv, args):
    return interp.call_value(args[0], [recv])


def it_str(interp, recv, args):
    return recv.name


# ----------------------------------------------------------------------------- Class / Fun / misc
def c_name(interp, recv, args):
    return recv.name


def c_super(interp, recv, args):
    return recv.parent


def f_name(interp, recv, args):
    if isinstance(recv, LBound):
        return recv.fn.name
    return recv.name


def f_len(interp, recv, args):
    return float(len(recv.params))


def f_call(interp, recv, args):
    return interp.call_value(recv, list(args))


def e_init(interp, recv, args):
    recv.fields["message"] = args[0]
    recv.fields["backTrace"] = LList([])
    if len(args) > 1:
        recv.fields["inner"] = args[1]
    return recv


# ----------------------------------------------------------------------------- std.regexp (a subset)
# Only patterns on which python's re and the regex crate agree are generated (literals, classes, + * ?, groups, |).
def rx_init(interp, recv, args):
    import re
    recv.fields["pattern"] = args[0]
    recv.fields["flags"] = args[1] if len(args) > 1 else ""
    try:
        re.compile(args[0])
    except re.error:
        raise _model().Unsupported("regexp pattern python rejects")
    return recv


def _rx(recv):
    import re
    return re.compile(recv.fields["pattern"])


def rx_test(interp, recv, args):
    return _rx(recv).search(args[0]) is not None


def rx_match(interp, recv, args):
    m = _rx(recv).search(args[0])
    return m.group(0) if m else None


def rx_match_all(interp, recv, args):
    found = [m.group(0) for m in _rx(recv).finditer(args[0])]
    interp.tick(len(found))
    return LList(found) if found else None


def rx_captures(interp, recv, args):
    m = _rx(recv).search(args[0])
    if m is None:
        return None
    return LList([m.group(0)] + list(m.groups()))


def regexp_class(interp):
    cls = interp.classes.get("RegExp")
    if cls is None:
        cls = LClass("RegExp", interp.classes["Object"], native_kind="regexp")
        cls.fields = ["pattern", "flags"]
        cls.methods["init"] = LNative("init", rx_init, (1, 2), ("str", "str"))
        cls.methods["test"] = LNative("test", rx_test, (1, 1), ("str",))
        cls.methods["match"] = LNative("match", rx_match, (1, 1), ("str",))
        cls.methods["matchAll"] = LNative("matchAll", rx_match_all, (1, 1), ("str",))
        cls.methods["captures"] = LNative("captures", rx_captures, (1, 1), ("str",))
        interp.classes["RegExp"] = cls
    return cls


def ch_len(interp, recv, args):
    return float(len(recv.buf))


def ch_cap(interp, recv, args):
    return float(recv.cap)


def ch_close(interp, recv, args):
    recv.closed = True
    return None


TABLE = {
    "Object": [("equals", o_equals, (1, 1), ("any",)), ("cls", o_cls, (0, 0), ()), ("str", o_str, (0, 0), ()),
               ("isA?", o_is_a, (1, 1), ("any",))],
    "List": [("[]", l_get, (1, 1), ("num",)), ("[]=", l_set, (2, 2), ("any", "num")), ("len", l_len, (0, 0), ()),
             ("push", l_push, (0, None), ("any",)), ("pop", l_pop, (0, 0), ()),
             ("remove", l_remove, (1, 1), ("num",)), ("insert", l_insert, (2, 2), ("num", "any")),
             ("clear", l_clear, (0, 0), ()), ("has", l_has, (1, 1), ("any",)),
             ("index", l_index, (1, 1), ("any",)), ("iter", l_iter, (0, 0), ()),
             ("slice", l_slice, (0, 2), ("num", "num")), ("rev", l_rev, (0, 0), ()),
             ("str", l_str, (0, 0), ()), ("sort", l_sort, (1, 1), ("callable",))],
    "Tuple": [("[]", t_get, (1, 1), ("num",)), ("len", t_len, (0, 0), ()), ("has", t_has, (1, 1), ("any",)),
              ("index", t_index, (1, 1), ("any",)), ("iter", t_iter, (0, 0), ()),
              ("slice", t_slice, (0, 2), ("num", "num")), ("str", t_str, (0, 0), ())],
    "Map": [("[]", m_get_index, (1, 1), ("any",)), ("[]=", m_set_index, (2, 2), ("any", "any")),
            ("get", m_get, (1, 1), ("any",)), ("set", m_set, (2, 2), ("any", "any")),
            ("has", m_has, (1, 1), ("any",)), ("insert", m_set, (2, 2), ("any", "any")),
            ("remove", m_remove, (1, 1), ("any",)), ("len", m_len, (0, 0), ()), ("str", m_str, (0, 0), ()),
            ("iter", m_iter, (0, 0), ())],
    "String": [("str", s_str, (0, 0), ()), ("len", s_len, (0, 0), ()), ("[]", s_get, (1, 1), ("num",)),
               ("has", s_has, (1, 1), ("str",)), ("upCase", s_up, (0, 0), ()), ("downCase", s_down, (0, 0), ()),
               ("split", s_split, (1, 1), ("str",)), ("slice", s_slice, (0, 2), ("num", "num")),
               ("trim", s_trim, (0, 0), ()), ("trimStart", s_trim_start, (0, 0), ()),
               ("trimEnd", s_trim_end, (0, 0), ()), ("iter", s_iter, (0, 0), ())],
    "Number": [("str", num_str, (0, 0), ()), ("times", num_times, (0, 0), ()),
               ("until", num_until, (1, 2), ("num", "num")), ("floor", num_floor, (0, 0), ()),
               ("ceil", num_ceil, (0, 0), ()), ("round", num_round, (0, 0), ())],
    "Bool": [("str", o_str, (0, 0), ())],
    "Nil": [("str", o_str, (0, 0), ())],
    "Iter": [("next", it_next, (0, 0), ()), ("current", it_current, (0, 0), ()), ("iter", it_iter, (0, 0), ()),
             ("first", it_first, (0, 0), ()), ("last", it_last, (0, 0), ()), ("take", it_take, (1, 1), ("num",)),
             ("skip", it_skip, (1, 1), ("num",)), ("map", it_map, (1, 1), ("callable",)),
             ("filter", it_filter, (1, 1), ("callable",)), ("reduce", it_reduce, (2, 2), ("any", "callable")),
             ("len", it_len, (0, 0), ()), ("each", it_each, (1, 1), ("callable",)),
             ("zip", it_zip, (0, None), ("iter",)), ("chain", it_chain, (0, None), ("iter",)),
             ("all", it_all, (1, 1), ("callable",)), ("any", it_any, (1, 1), ("callable",)),
             ("list", it_list, (0, 0), ()), ("into", it_into, (1, 1), ("callable",)), ("str", it_str, (0, 0), ())],
    "Class": [("name", c_name, (0, 0), ()), ("superCls", c_super, (0, 0), ())],
    "Fun": [("name", f_name, (0, 0), ()), ("len", f_len, (0, 0), ()), ("call", f_call, (0, None), ("any",))],
    "Method": [("name", f_name, (0, 0), ()), ("call", f_call, (0, None), ("any",))],
    "Native": [("name", f_name, (0, 0), ()), ("call", f_call, (0, None), ("any",))],
    "Channel": [("len", ch_len, (0, 0), ()), ("capacity", ch_cap, (0, 0), ()), ("close", ch_close, (0, 0), ())],
    "Module": [],
}

ERRORS = ["TypeError", "FormatError", "ValueError", "IndexError", "DeadLockError", "ChannelError", "SyntaxError",
          "ImportError", "ExportError", "RuntimeError", "PropertyError", "MethodNotFoundError", "KeyError"]

STATICS = {
    ("List", "collect"): ("collect", l_collect, (1, 1), ("any",)),
    ("Tuple", "collect"): ("collect", t_collect, (1, 1), ("any",)),
}


def static_native(interp, cls, name):
    e = STATICS.get((cls.name, name))
    if e is None or cls.native_kind is None:
        return None
    return LNative(e[0], lambda i, recv, args, f=e[1]: f(i, recv, args), e[2], e[3])


def install(interp):
    classes = interp.classes
    obj = LClass("Object", None, native_kind="object")
    classes["Object"] = obj
    for cname, entries in TABLE.items():
        if cname == "Object":
            cls = obj
        else:
            cls = LClass(cname, obj, native_kind=cname.lower())
            classes[cname] = cls
        for (mname, fn, arity, kinds) in entries:
            cls.methods[mname] = LNative(mname, fn, arity, kinds)
            cls.methods[mname].stack = mname in STACK_NATIVES.get(cname, ())
    err = LClass("Error", obj, native_kind="error")
    err.fields = ["message", "backTrace", "inner"]
    err.methods["init"] = LNative("init", e_init, (1, 2), ("str", "any"))
    classes["Error"] = err
    for name in ERRORS:
        c = LClass(name, err, native_kind="error")
        classes[name] = c
    g = interp.g
    for name in ("Object", "List", "Tuple", "Map", "String", "Number", "Bool", "Nil", "Iter", "Class", "Fun",
                 "Method", "Native", "Channel", "Error") + tuple(ERRORS):
        g[name] = classes[name]
    g["print"] = LNative("print", n_print, (0, None), ("any",), is_method=False)
    g["assert"] = LNative("assert", n_assert, (1, 1), ("bool",), is_method=False)
    g["assertEq"] = LNative("assertEq", n_assert_eq, (2, 2), ("any", "any"), is_method=False)
    g["assertNe"] = LNative("assertNe", n_assert_ne, (2, 2), ("any", "any"), is_method=False)
    g["exit"] = LNative("exit", n_exit, (0, 1), ("num",), is_method=False)
    for name in STACK_NATIVES["<global>"]:
        g[name].stack = True
