"""Reference evaluator for the generated subset of Laythe.

An environment passing tree walking interpreter over the tuple AST of `ast.py`,
written from the language description (README, laythe.bnf, fixtures). It shares no
code with the VM. Output is the list of lines `print` writes plus the way the program ended.
"""
import math

from .values import (UNDEF, Cell, LBound, LClass, LClosure, LInstance, LIter, LList, LMap, LModuleObj,
                     LNative, LObj, LTuple, LChannel, fmt_num, is_falsey, key_of, values_equal)
from . import natives as _natives


class StepBudget(Exception):
    """The model ran out of steps: the case is discarded, never a violation."""


class Unsupported(Exception):
    """The program left the subset the model has evidence for: the case is discarded."""


class LyError(Exception):
    def __init__(self, inst, chain=None):
        Exception.__init__(self)
        self.inst = inst
        self.chain = chain or []


class BreakEx(Exception):
    pass


class ContinueEx(Exception):
    pass


class ReturnEx(Exception):
    def __init__(self, value):
        Exception.__init__(self)
        self.value = value


class ExitEx(Exception):
    def __init__(self, code):
        Exception.__init__(self)
        self.code = code


class Env:
    __slots__ = ("vars", "parent")

    def __init__(self, parent=None):
        self.vars = {}
        self.parent = parent

    def lookup(self, name):
        e = self
        while e is not None:
            c = e.vars.get(name)
            if c is not None:
                return c
            e = e.parent
        return None

    def declare(self, name, value, home=0, kind="let"):
        c = Cell(value, home, kind)
        self.vars[name] = c
        return c


class Frame:
    __slots__ = ("name", "line", "self_val", "owner", "native", "aid", "creator")

    def __init__(self, name, self_val=None, owner=None, native=False, aid=0, creator=0):
        self.name = name
        self.line = 0
        self.self_val = self_val
        self.owner = owner
        self.native = native
        self.aid = aid  # activation id
        self.creator = creator  # activation that created the running closure


class Result:
    def __init__(self):
        self.out = []  # printed lines
        self.outcome = "ok"  # ok | error | exit | deadlock
        self.code = 0
        self.err_class = None
        self.err_msg = None
        self.err_chain = None  # [(fn_name, line)] innermost first
        self.labels = set()
        self.counts = {}
        self.steps = 0

    def stdout(self):
        return "".join(l + "\n" for l in self.out)


MAX_FRAMES = 255  # laythe_vm::constants::MAX_FRAME_SIZE


STD_MODULES = {(), ("math",), ("env",), ("regexp",), ("io",), ("io", "stdio"), ("io", "fs"), ("io", "global")}


class Interp:
    def __init__(self, files=None, main="/v/main.lay", lines=None, step_limit=200000, max_frames=MAX_FRAMES):
        self.res = Result()
        self.files = files or {}
        self.main = main
        self.lines = lines or {}
        self.step_limit = step_limit
        self.max_frames = max_frames
        self.frames = []
        self.g = {}
        self.classes = {}
        self.modules = {}  # path -> (env, exports dict) once run
        self.module_name = "main"
        self.cur_exports = None
        self.chan_ids = 0
        self.next_aid = 1
        self.live = set()
        self.sites = {}
        self.lambda_names = {}
        # Background fibers, for programs whose launched functions print nothing and only feed channels (C17): a
        # launch is deferred until the launching code waits on a channel. Off by default: the sequential model says
        # nothing about scheduling, programs with real fiber interplay are judged by pbt/kpn.py instead
        self.fibers = False
        self.deferred = []
        # xs[i()] op= e evaluating i() a second time before the store: NOT the semantics, only a way to tell whether
        # a mismatch is the known finding 'compound index assignment evaluates its index twice' (checks/c01.py)
        self.index_twice = False
        _natives.install(self)

    # ------------------------------------------------------------------ utilities
    def tick(self, n=1):
        self.res.steps += n
        if self.res.steps > self.step_limit:
            raise StepBudget()

    def label(self, name):
        self.res.labels.add(name)

    def note_site(self, node, obj):
        """Which receiver classes reach a property / invoke site (inline cache histories)."""
        c = self.class_of(obj)
        seen = self.sites.setdefault(id(node), [])
        if not seen or seen[-1] is not c:
            if c in seen:
                self.res.labels.add("site_class_returns")
            seen.append(c)
            if len(set(id(x) for x in seen)) >= 2:
                self.res.labels.add("polymorphic_site")
                if len(set(x.name for x in seen)) < len(set(id(x) for x in seen)):
                    self.res.labels.add("site_same_name_distinct_class")

    def count(self, name, n=1):
        self.res.counts[name] = self.res.counts.get(name, 0) + n

    def error(self, cls_name, msg):
        cls = self.classes[cls_name]
        inst = LInstance(cls)
        inst.fields["message"] = msg
        inst.fields["backTrace"] = LList([])
        inst.fields["inner"] = None
        return self.make_error(inst)

    left_try = False

    def make_error(self, inst):
        if self.left_try:
            self.res.labels.add("left_try_then_raise")
        chain = [(f.name, f.line, f.native) for f in reversed(self.frames)]
        return LyError(inst, chain)

    def class_of(self, v):
        c = self.classes
        if v is None:
            return c["Nil"]
        if v is True or v is False:
            return c["Bool"]
        if isinstance(v, float):
            return c["Number"]
        if isinstance(v, str):
            return c["String"]
        if isinstance(v, LInstance):
            return v.cls
        if isinstance(v, LList):
            return c["List"]
        if isinstance(v, LMap):
            return c["Map"]
        if isinstance(v, LTuple):
            return c["Tuple"]
        if isinstance(v, LClosure):
            return c["Fun"]
        if isinstance(v, LBound):
            return c["Method"]
        if isinstance(v, LNative):
            return c["Native"]
        if isinstance(v, LIter):
            return c["Iter"]
        if isinstance(v, LChannel):
            return c["Channel"]
        if isinstance(v, LClass):
            return c["Class"]
        if isinstance(v, LModuleObj):
            return c["Module"]
        raise Unsupported("class_of %r" % (v,))

    # ------------------------------------------------------------------ string conversion
    def to_str(self, v):
        """What `v.str()` returns (the text print writes)."""
        if v is None:
            return "nil"
        if v is True:
            return "true"
        if v is False:
            return "false"
        if isinstance(v, float):
            return fmt_num(v)
        if isinstance(v, str):
            self.tick(len(v) // 64)
            return v
        if isinstance(v, LList):
            self.tick(1 + len(v.items))  # (shared sub lists are written once per path to them)
            return "[" + ", ".join(self.to_str_quoted(x) for x in v.items) + "]"
        if isinstance(v, LTuple):
            self.tick(1 + len(v.items))
            return "(" + ", ".join(self.to_str_quoted(x) for x in v.items) + ")"
        if isinstance(v, LMap):
            if not v.d:
                return "{}"
            if len(v.d) > 1:
                # iteration order of the real map is address dependent
                raise Unsupported("printing a map with more than one entry")
            return "{ " + ", ".join(self.to_str_quoted(k) + ": " + self.to_str_quoted(x)
                                    for (k, x) in v.d.values()) + " }"
        if isinstance(v, LInstance):
            m = v.cls.find_method("str")
            if m is not None and not isinstance(m, LNative):
                r = self.call_value(LBound(v, m), [])
                if not isinstance(r, str):
                    raise Unsupported("str() returned a non string")
                return r
            raise Unsupported("printing an instance without str()")
        raise Unsupported("printing %s" % type(v).__name__)

    def to_str_quoted(self, v):
        if isinstance(v, str):
            return "'" + v + "'"
        return self.to_str(v)

    # ------------------------------------------------------------------ running
    def name_lambdas(self, node, let_name=None):
        """The parser names a lambda after the `let` whose initialiser it textually sits in."""
        if isinstance(node, tuple):
            if node and node[0] == "let" and len(node) == 3:
                self.name_lambdas(node[2], node[1])
                return
            if node and node[0] == "lambda":
                if let_name is not None:
                    self.lambda_names[id(node)] = let_name
                self.name_lambdas(node[2], let_name)
                return
            for x in node:
                self.name_lambdas(x, let_name)
        elif isinstance(node, list):
            for x in node:
                self.name_lambdas(x, let_name)
        elif isinstance(node, dict):
            for x in node.values():
                self.name_lambdas(x, let_name)

    def run(self, module_ast):
        """Run the main module. Returns the Result."""
        res = self.res
        self.name_lambdas(module_ast)
        self.name_lambdas(self.files)
        try:
            self.run_module(self.main, module_ast, "script")
        except LyError as e:
            res.outcome = "error"
            res.code = 1
            res.err_class = e.inst.cls.name
            res.err_msg = e.inst.fields.get("message")
            res.err_chain = e.chain
        except ExitEx as e:
            res.outcome = "exit"
            res.code = e.code
        except RecursionError:
            raise StepBudget()
        return res

    def run_module(self, path, module_ast, frame_name="script"):
        env = Env(None)
        names = declared_names(module_ast)
        aid = self.next_aid
        self.next_aid += 1
        self.live.add(aid)
        for n in names:
            env.declare(n, UNDEF, aid, "module")
        exports = {}
        self.modules[path] = (env, exports)
        saved = (self.cur_exports, self.frames)
        self.cur_exports = exports
        frame = Frame(frame_name, aid=aid)
        self.frames = self.frames + [frame]
        try:
            self.exec_block_in(module_ast, env, module_level=True)
        finally:
            self.cur_exports, self.frames = saved
        return env, exports

    # ------------------------------------------------------------------ statements
    def exec_block_in(self, stmts, env, module_level=False):
        for s in stmts:
            if not module_level and s[0] in ("let", "fn", "class"):
                # names are bound lexically: a closure created before this declaration must keep seeing whatever
                # the name meant at its own position, so every local declaration opens a new region of the scope
                env = Env(env)
            self.exec_stmt(s, env, module_level)

    def exec_block(self, stmts, env):
        self.exec_block_in(stmts, Env(env), False)

    def declare(self, env, name, value, module_level, kind="let"):
        aid = self.frames[-1].aid
        if module_level:
            c = env.vars.get(name)
            if c is None:
                c = env.declare(name, value, aid, "module")
            else:
                c.v = value
                c.w = aid
            return c
        return env.declare(name, value, aid, kind)

    def exec_stmt(self, s, env, module_level=False):
        self.tick()
        k = s[0]
        line = self.lines.get(id(s))
        if line is not None:
            self.frames[-1].line = line
        if k == "expr":
            self.eval(s[1], env)
        elif k == "print":
            v = self.eval(s[1], env)
            # print runs with a stub frame of its own: a str() method it calls sees it in its traceback
            saved = self.frames
            self.frames = saved + [Frame("print", native=True, aid=saved[-1].aid, creator=saved[-1].creator)]
            try:
                text = self.to_str(v)
            finally:
                self.frames = saved
            self.res.out.append(text)
        elif k == "let":
            v = self.eval(s[2], env) if s[2] is not None else None
            self.declare(env, s[1], v, module_level)
        elif k == "fn":
            if module_level:
                clo = LClosure(s[1], s[2], ("block", s[3]), env, "fn", module=self.module_name,
                               home=self.frames[-1].aid)
                self.declare(env, s[1], clo, True)
            else:
                # a local function can refer to itself: declare first
                c = env.declare(s[1], None, self.frames[-1].aid, "fn")
                c.v = LClosure(s[1], s[2], ("block", s[3]), env, "fn", module=self.module_name,
                               home=self.frames[-1].aid)
        elif k == "class":
            self.exec_class(s, env, module_level)
        elif k == "if":
            self.exec_if(s, env)
        elif k == "while":
            while not is_falsey(self.eval(s[1], env)):
                self.tick()
                self.count("loop_iter")
                try:
                    self.exec_block(s[2], env)
                except BreakEx:
                    break
                except ContinueEx:
                    continue
        elif k == "for":
            self.exec_for(s, env)
        elif k == "break":
            raise BreakEx()
        elif k == "continue":
            raise ContinueEx()
        elif k == "return":
            v = self.eval(s[1], env) if s[1] is not None else None
            raise ReturnEx(v)
        elif k == "implicit":
            raise ReturnEx(self.eval(s[1], env))
        elif k == "try":
            self.exec_try(s, env)
        elif k == "raise":
            v = self.eval(s[1], env)
            if isinstance(v, LInstance) and v.cls.is_subclass(self.classes["Error"]):
                raise self.make_error(v)
            raise self.error("RuntimeError", "Can only raise an instance of Error")
        elif k == "export":
            inner = s[1]
            self.exec_stmt(inner, env, module_level)
            self.cur_exports[inner[1]] = env.vars[inner[1]]
        elif k == "import":
            self.exec_import(s, env, module_level)
        elif k == "launch":
            if not self.fibers or s[1][0] != "call":
                raise Unsupported("launch in the sequential model")
            fn = self.eval(s[1][1], env)
            argv = [self.eval(a, env) for a in s[1][2]]
            self.deferred.append((fn, argv))
        else:
            raise Unsupported("stmt %s" % k)

    def exec_if(self, s, env):
        c = self.eval(s[1], env)
        self.count("branch")
        if not is_falsey(c):
            self.exec_block(s[2], env)
        elif s[3] is not None:
            if isinstance(s[3], tuple) and s[3] and s[3][0] == "if":
                self.exec_if(s[3], env)
            else:
                self.exec_block(s[3], env)

    def exec_for(self, s, env):
        it = self.eval(s[2], env)
        it = self.get_iter(it)
        loop_env = Env(env)
        item = loop_env.declare(s[1], None, self.frames[-1].aid, "for")  # one variable for the whole loop
        while True:
            self.tick()
            if not self.iter_next(it):
                break
            item.v = self.iter_current(it)
            self.count("loop_iter")
            try:
                self.exec_block(s[3], loop_env)
            except BreakEx:
                break
            except ContinueEx:
                continue

    def get_iter(self, v):
        if isinstance(v, LIter):
            return v
        m = self.find_method_value(v, "iter")
        if m is None:
            raise self.error("PropertyError",
                             "Undefined property iter on class %s." % self.class_of(v).name)
        return self.call_value(m, [])

    def iter_next(self, it):
        if isinstance(it, LIter):
            return it.next()
        m = self.find_method_value(it, "next")
        if m is None:
            raise self.error("PropertyError",
                             "Undefined property next on class %s." % self.class_of(it).name)
        return not is_falsey(self.call_value(m, []))

    def iter_current(self, it):
        if isinstance(it, LIter):
            return it.current
        m = self.find_method_value(it, "current")
        if m is None:
            raise self.error("PropertyError",
                             "Undefined property current on class %s." % self.class_of(it).name)
        return self.call_value(m, [])

    def exec_try(self, s, env):
        depth = len(self.frames)
        frames = self.frames
        try:
            self.exec_block(s[1], env)
        except (BreakEx, ContinueEx, ReturnEx):
            self.left_try = True
            raise
        except LyError as e:
            self.frames = frames[:depth]
            self.count("caught")
            crossed = max(0, len([c for c in e.chain if not c[2]]) - len([f for f in self.frames if not f.native]))
            if crossed >= 1:
                self.label("error_crossed_frame")
            for (var, cls_name, body) in s[2]:
                if cls_name is not None:
                    c = env.lookup(cls_name)
                    cv = c.v if c is not None else self.g.get(cls_name, UNDEF)
                    if cv is UNDEF:
                        raise Unsupported("undefined catch class")
                    if not (isinstance(cv, LClass) and cv.is_subclass(self.classes["Error"])):
                        raise self.error("TypeError", "Catch block must be blank or a subclass of Error.")
                    if not e.inst.cls.is_subclass(cv):
                        continue
                # matched: record back trace (frames between raise and the catching frame)
                here = len([f for f in self.frames if True])
                bt = []
                for (name, line, native) in e.chain[: len(e.chain) - here + 1]:
                    bt.append((name, line, native))
                e.inst.fields["backTrace"] = LList([self.fmt_bt(b) for b in bt])
                cenv = Env(env)
                cenv.declare(var, e.inst, self.frames[-1].aid, "catch")
                for st in body:
                    self.exec_stmt(st, cenv, False)
                return
            raise

    def fmt_bt(self, b):
        name, line, native = b
        if native:
            return "native:0 in %s()" % name
        if name == "script":
            return "%s:%s in script" % (self.main, line)
        return "%s:%s in %s()" % (self.main, line, name)

    def exec_class(self, s, env, module_level):
        _, name, parent_name, init, methods, statics = s
        parent = None
        if parent_name is not None:
            c = env.lookup(parent_name)
            pv = c.v if c is not None else self.g.get(parent_name, UNDEF)
            if pv is UNDEF:
                raise self.error("RuntimeError", "Undefined variable %s" % parent_name)
            if not isinstance(pv, LClass):
                raise self.error("RuntimeError", "Superclass must be a class.")
            if pv.native_kind is not None and pv.name != "Error" and not pv.is_subclass(self.classes["Error"]):
                raise Unsupported("subclassing a builtin class")
            parent = pv
        else:
            parent = self.classes["Object"]
        cls = LClass(name, parent)
        if parent_name is not None and parent.native_kind is None:
            self.label("inherit")
        # the class name is visible inside its own methods
        if module_level:
            self.declare(env, name, cls, True)
            cenv = env
        else:
            env.declare(name, cls)
            cenv = env
        # fields: every `self.x =` / `@x =` in the text of init, in order of appearance
        if init is not None:
            for f in assigned_fields(init[2]):
                if f not in cls.fields:
                    cls.fields.append(f)
            cls.methods["init"] = LClosure("init", init[1], ("block", init[2]), cenv, "init", cls, self.module_name)
        for (mname, params, body) in methods:
            cls.methods[mname] = LClosure(mname, params, ("block", body), cenv, "method", cls, self.module_name)
        for (mname, params, body) in statics:
            cls.statics[mname] = LClosure(mname, params, ("block", body), cenv, "static", cls, self.module_name)
        cls.decl = s

    def exec_import(self, s, env, module_level):
        _, path, form = s  # path: list of segments e.g. ["self", "a"]; form: ("whole", alias|None) | ("syms", [(name, alias|None)])
        if path[0] == "std" and form[0] == "whole":
            # a module of the standard library, bound to a name the program never looks into; the library is what it
            # is, a file of the project does not become part of it
            if tuple(path[1:]) not in STD_MODULES:
                raise self.error("ImportError", "Module %s not found" % ".".join(path))
            self.declare(env, form[1] or path[-1], LModuleObj(path[-1], {}), module_level)
            return
        if path == ["std", "regexp"] and form[0] == "syms" and all(n == "RegExp" for (n, _a) in form[1]):
            for (n, alias) in form[1]:
                self.declare(env, alias or n, _natives.regexp_class(self), module_level)
            return
        if path[0] != "self":
            if path[0] == "std":
                raise Unsupported("std import")
            # only self and std are packages
            raise self.error("ImportError", "Module %s not found" % ".".join(path))
        # every module on the way is loaded (its body runs once, outermost first) before the one asked for
        for depth in range(2, len(path) + 1):
            file = "/v/" + "/".join(path[1:depth]) + ".lay"
            if file in self.modules:
                continue
            src = self.files.get(file)
            if src is None:
                raise self.error("ImportError", "Module %s not found" % "/".join(path))
            saved_name = self.module_name
            self.module_name = path[depth - 1]
            try:
                self.run_module(file, src, "script")
            finally:
                self.module_name = saved_name
            self.count("module_run")
        file = "/v/" + "/".join(path[1:]) + ".lay"
        menv, exports = self.modules[file]
        if form[0] == "whole":
            alias = form[1] or path[-1]
            obj = LModuleObj(path[-1], exports)
            self.declare(env, alias, obj, module_level)
        else:
            for (name, alias) in form[1]:
                if name not in exports:
                    raise self.error("ImportError",
                                     "Symbol %s not exported from module %s" % (name, path[-1]))
                self.declare(env, alias or name, exports[name].v, module_level)

    # ------------------------------------------------------------------ expressions
    def eval(self, e, env):
        self.tick()
        k = e[0]
        if k == "num":
            return e[1]
        if k == "str" or k == "mlstr":
            return e[1]
        if k == "nil":
            return None
        if k == "true":
            return True
        if k == "false":
            return False
        if k == "var":
            return self.get_var(e[1], env)
        if k == "group":
            return self.eval(e[1], env)
        if k == "bin":
            return self.eval_bin(e, env)
        if k == "un":
            v = self.eval(e[2], env)
            self.count("op")
            if e[1] == "!":
                return is_falsey(v)
            if isinstance(v, float):
                return -v
            raise self.error("RuntimeError", "Operand must be a number.")
        if k == "tern":
            self.count("branch")
            if not is_falsey(self.eval(e[1], env)):
                return self.eval(e[2], env)
            return self.eval(e[3], env)
        if k == "assign":
            return self.eval_assign(e, env)
        if k == "opassign":
            return self.eval_opassign(e, env)
        if k == "call":
            return self.eval_call(e, env)
        if k == "prop":
            obj = self.eval(e[1], env)
            self.note_site(e, obj)
            return self.get_prop(obj, e[2])
        if k == "index":
            obj = self.eval(e[1], env)
            idx = self.eval(e[2], env)
            return self.invoke(obj, "[]", [idx])
        if k == "list":
            return LList([self.eval(x, env) for x in e[1]])
        if k == "tuple":
            return LTuple([self.eval(x, env) for x in e[1]])
        if k == "map":
            m = LMap()
            for (kx, vx) in e[1]:
                kv = self.eval(kx, env)
                vv = self.eval(vx, env)
                m.d[key_of(kv)] = (kv, vv)
            return m
        if k == "interp":
            parts = []
            for p in e[1]:
                if isinstance(p, str):
                    parts.append(p)
                else:
                    v = self.eval(p, env)
                    parts.append(self.str_of(v))
                    self.tick(len(parts[-1]) // 16)
            return "".join(parts)
        if k == "lambda":
            clo = LClosure(self.lambda_names.get(id(e), "lambda"), e[1], e[2], env, "lambda", None, self.module_name,
                            home=self.frames[-1].aid)
            clo.def_line = self.frames[-1].line
            return clo
        if k == "self":
            return self.frames_self(env)
        if k == "at":
            return self.get_prop(self.frames_self(env), e[1])
        if k == "super":
            owner = self.frames_owner(env)
            recv = self.frames_self(env)
            m = owner.parent.find_method(e[1]) if owner.parent is not None else None
            if m is None:
                raise self.error("PropertyError", "Undefined property %s on class %s." % (e[1], owner.parent.name))
            return LBound(recv, m)
        if k == "chan":
            return self.eval_chan(e, env)
        if k == "recv" and self.fibers:
            ch = self.eval(e[1], env)
            if not isinstance(ch, LChannel):
                raise Unsupported("receive from a non channel")
            while True:
                if ch.buf:
                    return ch.buf.pop(0)
                if ch.closed:
                    return None
                if not self.deferred:
                    raise Unsupported("receive would block")
                fn, argv = self.deferred.pop(0)
                self.call_value(fn, argv)
        if k == "send" and self.fibers:
            ch = self.eval(e[1], env)
            v = self.eval(e[2], env)
            if not isinstance(ch, LChannel):
                raise Unsupported("send to a non channel")
            if ch.closed:
                raise self.error("RuntimeError", "Attempted to send into a closed channel.")
            ch.buf.append(v)
            return v
        raise Unsupported("expr %s" % k)

    def eval_chan(self, e, env):
        if e[1] is None:
            self.chan_ids += 1
            return LChannel(0, self.chan_ids)
        cap = self.eval(e[1], env)
        if not isinstance(cap, float):
            raise self.error("TypeError", "chan capacity")
        if cap != math.floor(cap) or cap < 1:
            raise self.error("TypeError", "buffer must be an positive integer.")
        self.chan_ids += 1
        return LChannel(int(cap), self.chan_ids)

    def str_of(self, v):
        """`str()` as interpolation and print apply it (dispatches to user str())."""
        return self.to_str(v)

    def frames_self(self, env=None):
        c = env.lookup("self") if env is not None else None
        if c is None:
            raise Unsupported("self outside of a method")
        if c.home != self.frames[-1].aid:
            self.res.labels.add("cap:self")
        return c.v

    def frames_owner(self, env):
        c = env.lookup("$owner")
        if c is None:
            raise Unsupported("super outside of a method")
        return c.v

    def get_var(self, name, env):
        c = env.lookup(name)
        if c is None:
            v = self.g.get(name, UNDEF)
            if v is UNDEF:
                raise Unsupported("unresolved name %s" % name)
            return v
        if c.v is UNDEF:
            raise self.error("RuntimeError", "Undefined variable %s" % name)
        f = self.frames[-1]
        if c.home != f.aid:
            self.res.labels.add("cap:" + c.kind)
            if c.w != f.aid:
                self.res.labels.add("cross_scope_read")
            if c.home != f.creator and c.kind != "module":
                self.res.labels.add("capture_of_capture")
        elif c.w != f.aid:
            self.res.labels.add("cross_scope_read")
        return c.v

    def eval_bin(self, e, env):
        op = e[1]
        if op == "&&":
            l = self.eval(e[2], env)
            self.count("op")
            self.count("branch")
            if is_falsey(l):
                return l
            return self.eval(e[3], env)
        if op == "||":
            l = self.eval(e[2], env)
            self.count("op")
            self.count("branch")
            if not is_falsey(l):
                return l
            return self.eval(e[3], env)
        l = self.eval(e[2], env)
        r = self.eval(e[3], env)
        return self.binop(op, l, r)

    def binop(self, op, l, r):
        self.count("op")
        if op == "==":
            return values_equal(l, r)
        if op == "!=":
            return not values_equal(l, r)
        both_num = isinstance(l, float) and isinstance(r, float)
        both_str = isinstance(l, str) and isinstance(r, str)
        if op == "+":
            if both_num:
                return l + r
            if both_str:
                # data costs steps too: a loop that doubles a string would otherwise reach gigabytes (in the model
                # and, afterwards, in the vm) long before it runs out of statements
                self.tick((len(l) + len(r)) // 16)
                return l + r
            raise self.error("RuntimeError", "Operands must be two numbers or two strings.")
        if op == "-":
            if both_num:
                return l - r
            raise self.error("RuntimeError", "Operands must be numbers.")
        if op == "*":
            if both_num:
                return l * r
            raise self.error("RuntimeError", "Operands must be numbers.")
        if op == "/":
            if both_num:
                return fdiv(l, r)
            raise self.error("RuntimeError", "Operands must be numbers.")
        if op in ("<", "<=", ">", ">="):
            if both_num:
                return {"<": l < r, "<=": l <= r, ">": l > r, ">=": l >= r}[op]
            if both_str:
                lb, rb = l.encode("utf-8"), r.encode("utf-8")
                return {"<": lb < rb, "<=": lb <= rb, ">": lb > rb, ">=": lb >= rb}[op]
            raise self.error("RuntimeError", "Operands must be numbers or strings.")
        raise Unsupported("binop %s" % op)

    def eval_assign(self, e, env):
        t = e[1]
        if t[0] == "var":
            v = self.eval(e[2], env)
            self.set_var(t[1], v, env)
            return v
        if t[0] == "prop":
            obj = self.eval(t[1], env)
            self.note_site(t, obj)
            v = self.eval(e[2], env)
            self.set_prop(obj, t[2], v)
            return v
        if t[0] == "at":
            obj = self.frames_self(env)
            v = self.eval(e[2], env)
            self.set_prop(obj, t[1], v)
            return v
        if t[0] == "index":
            obj = self.eval(t[1], env)
            v = self.eval(e[2], env)
            idx = self.eval(t[2], env)
            return self.invoke(obj, "[]=", [v, idx])
        raise Unsupported("assign target")

    def eval_opassign(self, e, env):
        _, op, t, rhs = e
        if t[0] == "var":
            cur = self.get_var(t[1], env)
            r = self.eval(rhs, env)
            v = self.binop(op, cur, r)
            self.set_var(t[1], v, env)
            return v
        if t[0] == "prop":
            obj = self.eval(t[1], env)
            cur = self.get_prop(obj, t[2])
            r = self.eval(rhs, env)
            v = self.binop(op, cur, r)
            self.set_prop(obj, t[2], v)
            return v
        if t[0] == "at":
            obj = self.frames_self(env)
            cur = self.get_prop(obj, t[1])
            r = self.eval(rhs, env)
            v = self.binop(op, cur, r)
            self.set_prop(obj, t[1], v)
            return v
        if t[0] == "index":
            obj = self.eval(t[1], env)
            idx = self.eval(t[2], env)
            cur = self.invoke(obj, "[]", [idx])
            r = self.eval(rhs, env)
            v = self.binop(op, cur, r)
            if self.index_twice:
                idx = self.eval(t[2], env)  # (the known defect, modelled to recognise it: see Interp.index_twice)
            return self.invoke(obj, "[]=", [v, idx])
        raise Unsupported("opassign target")

    def set_var(self, name, v, env):
        c = env.lookup(name)
        if c is None:
            raise Unsupported("assignment to unresolved name %s" % name)
        c.v = v
        c.w = self.frames[-1].aid

    # ------------------------------------------------------------------ properties and calls
    def get_prop(self, obj, name):
        if isinstance(obj, LInstance):
            if name in obj.fields:
                p = obj.cls.parent
                if p is not None and name in p.fields and p.native_kind is None:
                    self.label("inherited_field")
                return obj.fields[name]
        if isinstance(obj, LModuleObj):
            if name in obj.exports:
                return obj.exports[name].v
            raise self.error("PropertyError", "Undefined property %s on class %s." % (name, obj.name))
        m = self.find_method_value(obj, name)
        if m is None:
            raise self.error("PropertyError",
                             "Undefined property %s on class %s." % (name, self.class_of(obj).name))
        return m

    def find_method_value(self, obj, name):
        """Bound method `obj.name` or None."""
        if isinstance(obj, LClass):
            # static methods live in the class's own meta class and are not inherited by subclasses
            if name in obj.statics:
                return LBound(obj, obj.statics[name])
            m = self.classes["Class"].find_method(name)
            if m is not None:
                return LBound(obj, m)
            nm = _natives.static_native(self, obj, name)
            if nm is not None:
                return LBound(obj, nm)
            return None
        cls = self.class_of(obj)
        m = cls.find_method(name)
        if m is None:
            return None
        if cls.native_kind is None:
            # was an overridden definition chosen?
            c = cls
            while c is not None and name not in c.methods:
                c = c.parent
            if c is not None and c.parent is not None and c.parent.native_kind is None and \
                    c.parent.find_method(name) is not None:
                self.label("override_dispatch")
        return LBound(obj, m)

    def set_prop(self, obj, name, v):
        if isinstance(obj, LInstance):
            if name in obj.fields:
                obj.fields[name] = v
                return
            raise self.error("PropertyError", "Undefined property %s on class %s." % (name, obj.cls.name))
        raise self.error("RuntimeError", "Only instances have settable fields.")

    def invoke(self, obj, name, args):
        """obj.name(args) the way a fused invoke does: fields shadow methods."""
        if isinstance(obj, LInstance) and name in obj.fields:
            if obj.cls.find_method(name) is not None:
                self.label("shadow_call")
            return self.call_value(obj.fields[name], args)
        if isinstance(obj, LModuleObj):
            if name in obj.exports:
                return self.call_value(obj.exports[name].v, args)
            raise self.error("PropertyError", "Undefined property %s on class %s." % (name, obj.name))
        m = self.find_method_value(obj, name)
        if m is None:
            raise self.error("PropertyError",
                             "Undefined property %s on class %s." % (name, self.class_of(obj).name))
        return self.call_value(m, args)

    def eval_call(self, e, env):
        callee = e[1]
        if callee[0] == "prop":
            obj = self.eval(callee[1], env)
            self.note_site(callee, obj)
            args = [self.eval(a, env) for a in e[2]]
            if len(e[2]) == 0:
                # GetPropByName + Call(0) is fused into Invoke
                return self.invoke(obj, callee[2], args)
            # with arguments the property is read first (bound method / field), then called
            if isinstance(obj, LInstance) and callee[2] in obj.fields:
                if obj.cls.find_method(callee[2]) is not None:
                    self.label("shadow_call")
                return self.call_value(obj.fields[callee[2]], args)
            f = self.get_prop_for_call(obj, callee[2])
            return self.call_value(f, args)
        if callee[0] == "super":
            f = self.eval(callee, env)
            args = [self.eval(a, env) for a in e[2]]
            return self.call_value(f, args)
        f = self.eval(callee, env)
        args = [self.eval(a, env) for a in e[2]]
        return self.call_value(f, args)

    def get_prop_for_call(self, obj, name):
        return self.get_prop(obj, name)

    def call_value(self, f, args):
        self.tick()
        self.count("call")
        if isinstance(f, LBound):
            return self.call_fn(f.fn, args, f.recv)
        if isinstance(f, (LClosure, LNative)):
            return self.call_fn(f, args, None)
        if isinstance(f, LClass):
            return self.instantiate(f, args)
        if isinstance(f, LObj):
            raise self.error("RuntimeError", "%s is not callable." % self.class_of(f).name)
        raise self.error("RuntimeError", "%s is not callable." % self.class_of(f).name)

    def instantiate(self, cls, args):
        if cls.native_kind is not None and cls.native_kind not in ("error", "regexp"):
            raise Unsupported("instantiating builtin class %s" % cls.name)
        inst = LInstance(cls)
        init = cls.find_method("init")
        if init is None:
            if args:
                raise self.error("RuntimeError", "Expected 0 arguments but got %d" % len(args))
            return inst
        self.call_fn(init, args, inst)
        return inst

    def call_fn(self, fn, args, recv):
        if isinstance(fn, LNative):
            return _natives.call_native(self, fn, recv, args)
        if len(args) != len(fn.params):
            raise self.error("RuntimeError", "%s expected %d argument(s) but received %d." %
                             (fn.name, len(fn.params), len(args)))
        if len([f for f in self.frames]) >= self.max_frames:
            raise self.error("RuntimeError", "Stack overflow.")
        env = Env(fn.env)
        aid = self.next_aid
        self.next_aid += 1
        for p, a in zip(fn.params, args):
            env.declare(p, a, aid, "param")
        frame = Frame(fn.name, None, None, aid=aid, creator=fn.home)
        if fn.kind in ("method", "init", "static"):
            env.declare("self", recv, aid, "self")
            env.declare("$owner", fn.owner, aid, "self")
        if fn.home not in self.live:
            self.res.labels.add("called_after_return")
        self.live.add(aid)
        saved = self.frames
        self.frames = saved + [frame]
        try:
            body = fn.body
            if body[0] == "expr":
                frame.line = fn.def_line  # the expression sits on the line of the statement that holds the lambda
                return self.eval(body[1], env)
            self.exec_block_in(body[1], env, False)
            if fn.kind == "init":
                return recv
            return None
        except ReturnEx as r:
            if fn.kind == "init":
                return recv
            return r.value
        finally:
            self.frames = saved
            self.live.discard(aid)


def fdiv(l, r):
    if r == 0.0:
        if l == 0.0 or l != l:
            return math.nan
        neg = (math.copysign(1.0, l) < 0) != (math.copysign(1.0, r) < 0)
        return -math.inf if neg else math.inf
    try:
        return l / r
    except OverflowError:
        neg = (l < 0) != (r < 0)
        return -math.inf if neg else math.inf


def declared_names(stmts):
    """Names a module declares at its top level (they exist, undefined, from the start)."""
    out = []
    for s in stmts:
        k = s[0]
        if k == "export":
            s = s[1]
            k = s[0]
        if k in ("let", "fn", "class"):
            out.append(s[1])
        elif k == "import":
            form = s[2]
            if form[0] == "whole":
                out.append(form[1] or s[1][-1])
            else:
                for (name, alias) in form[1]:
                    out.append(alias or name)
    return out


def assigned_fields(stmts):
    """Fields assigned on self anywhere in the text of an initialiser, in order."""
    out = []

    def walk(n):
        if isinstance(n, tuple):
            if n and n[0] in ("assign", "opassign"):
                t = n[1] if n[0] == "assign" else n[2]
                if t[0] == "prop" and t[1] == ("self",):
                    if t[2] not in out:
                        out.append(t[2])
                elif t[0] == "at":
                    if t[1] not in out:
                        out.append(t[1])
            if n and n[0] in ("lambda", "fn", "class"):
                # nested functions are separate bodies: their assignments do not declare fields
                return
            for x in n:
                walk(x)
        elif isinstance(n, list):
            for x in n:
                walk(x)

    walk(stmts)
    return out
