"""AST -> Laythe source text, under a drawn layout.

The printer first produces a flat token list with statement boundaries marked, then a
layout decides what goes into each gap. Layouts never change the token sequence, so two
layouts of one AST are two spellings of the same program (metamorphic oracle of C01).
"""
from .values import fmt_num

# precedence levels (laythe_vm parser::Precedence)
P_ASSIGN, P_TERN, P_OR, P_AND, P_EQ, P_CMP, P_TERM, P_FACTOR, P_UNARY, P_CALL, P_PRIMARY = range(1, 12)

BIN_PREC = {"||": P_OR, "&&": P_AND, "==": P_EQ, "!=": P_EQ, "<": P_CMP, "<=": P_CMP, ">": P_CMP, ">=": P_CMP,
            "+": P_TERM, "-": P_TERM, "*": P_FACTOR, "/": P_FACTOR}

TIGHT = set("()[],;.")


def expr_prec(e):
    k = e[0]
    if k in ("assign", "opassign", "send", "lambda"):
        return P_ASSIGN
    if k == "tern":
        return P_TERN
    if k == "bin":
        return BIN_PREC[e[1]]
    if k in ("un", "recv"):
        return P_UNARY
    if k == "num" and (e[1] < 0 or e[1] != e[1] or e[1] in (float("inf"), float("-inf"))):
        return P_UNARY
    return P_PRIMARY


def quote(s, q='"'):
    out = [q]
    n = len(s)
    for i, ch in enumerate(s):
        if ch == "\\":
            out.append("\\\\")
        elif ch == q:
            out.append("\\" + q)
        elif ch == "\n":
            out.append("\\n")
        elif ch == "\t":
            out.append("\\t")
        elif ch == "\r":
            out.append("\\r")
        elif ch == "\0":
            out.append("\\0")
        elif ch == "$" and i + 1 < n and s[i + 1] == "{":
            raise ValueError("'${' cannot be written in a plain string literal")
        else:
            out.append(ch)
    out.append(q)
    return "".join(out)


class Printer:
    def __init__(self, parens="min", quote_char='"', paren_bits=None):
        self.toks = []
        self.marks = {}  # token index -> list of (stmt node, depth)
        self.gap_stmt = {}  # token index -> depth : the gap before this token is a statement boundary
        self.parens = parens
        self.q = quote_char
        self.paren_bits = paren_bits or []
        self.pb = 0
        self.depth = 0

    # -------------------------------------------------------------- tokens
    def t(self, *toks):
        self.toks.extend(toks)

    def boundary(self):
        self.gap_stmt[len(self.toks)] = self.depth

    def extra_paren(self, e):
        if self.parens == "all":
            return e[0] in ("bin", "un", "tern", "call", "prop", "index", "num", "var")
        if self.parens == "random":
            if e[0] in ("bin", "un", "tern", "call", "var", "num", "str"):
                b = self.paren_bits[self.pb % len(self.paren_bits)] if self.paren_bits else 0
                self.pb += 1
                return bool(b)
        return False

    # -------------------------------------------------------------- expressions
    def expr(self, e, min_prec=P_ASSIGN):
        need = expr_prec(e) < min_prec
        if need or (e[0] != "group" and self.extra_paren(e)):
            self.t("(")
            self.expr_inner(e)
            self.t(")")
        else:
            self.expr_inner(e)

    def expr_inner(self, e):
        k = e[0]
        if k == "num":
            v = e[1]
            if v < 0 or (v == 0 and str(v).startswith("-")):
                self.t("-", fmt_num(-v))
            else:
                self.t(fmt_num(v))
        elif k == "str":
            self.t(quote(e[1], self.q))
        elif k == "mlstr":
            # a string literal written with real line breaks inside it
            q = self.q
            self.t(q + e[1].replace("\\", "\\\\").replace(q, "\\" + q) + q)
        elif k == "nil":
            self.t("nil")
        elif k == "true":
            self.t("true")
        elif k == "false":
            self.t("false")
        elif k == "var":
            self.t(e[1])
        elif k == "self":
            self.t("self")
        elif k == "at":
            self.t("@" + e[1])
        elif k == "group":
            self.t("(")
            self.expr(e[1])
            self.t(")")
        elif k == "bin":
            p = BIN_PREC[e[1]]
            self.expr(e[2], p)
            self.t(e[1])
            self.expr(e[3], p + 1)
        elif k == "un":
            self.t(e[1])
            inner = e[2]
            if inner[0] == "un" or (inner[0] == "num" and expr_prec(inner) == P_UNARY):
                self.t("(")
                self.expr_inner(inner)
                self.t(")")
            else:
                self.expr(inner, P_UNARY)
        elif k == "recv":
            self.t("<-")
            self.expr(e[1], P_UNARY)
        elif k == "tern":
            self.expr(e[1], P_OR)
            self.t("?")
            self.expr(e[2], P_TERN)
            self.t(":")
            self.expr(e[3], P_TERN)
        elif k == "assign":
            self.target(e[1])
            self.t("=")
            self.expr(e[2], P_ASSIGN)
        elif k == "opassign":
            self.target(e[2])
            self.t(e[1] + "=")
            self.expr(e[3], P_ASSIGN)
        elif k == "send":
            self.target(e[1])
            self.t("<-")
            self.expr(e[2], P_ASSIGN)
        elif k == "call":
            self.expr(e[1], P_CALL)
            self.t("(")
            self.args(e[2])
            self.t(")")
        elif k == "prop":
            self.expr(e[1], P_CALL)
            self.t(".", e[2])
        elif k == "index":
            self.expr(e[1], P_CALL)
            self.t("[")
            self.expr(e[2])
            self.t("]")
        elif k == "super":
            self.t("super", ".", e[1])
        elif k == "list":
            self.t("[")
            self.args(e[1])
            self.t("]")
        elif k == "tuple":
            self.t("(")
            self.args(e[1])
            if len(e[1]) == 1:
                self.t(",")
            self.t(")")
        elif k == "map":
            self.t("{")
            for i, (kx, vx) in enumerate(e[1]):
                if i:
                    self.t(",")
                self.expr(kx, P_TERN)
                self.t(":")
                self.expr(vx, P_TERN)
            self.t("}")
        elif k == "interp":
            self.interp(e)
        elif k == "lambda":
            if e[1]:
                self.t("|")
                for i, p in enumerate(e[1]):
                    if i:
                        self.t(",")
                    self.t(p)
                self.t("|")
            else:
                self.t("||")
            body = e[2]
            if body[0] == "expr":
                self.expr(body[1], P_TERN)
            else:
                self.block(body[1])
        elif k == "chan":
            self.t("chan", "(")
            if e[1] is not None:
                self.expr(e[1])
            self.t(")")
        else:
            raise ValueError("printer: expr %s" % k)

    def interp(self, e):
        # an interpolated string is printed as one opaque token: its inner expressions are
        # rendered with single spaces so the token stays on one line
        q = self.q
        out = [q]
        for part in e[1]:
            if isinstance(part, str):
                out.append(quote(part, q)[1:-1])
            else:
                sub = Printer(self.parens if self.parens != "random" else "min", "'" if q == '"' else '"')
                sub.expr(part)
                out.append("${" + " ".join(sub.toks) + "}")
        out.append(q)
        self.t("".join(out))

    def target(self, t):
        k = t[0]
        if k == "var":
            self.t(t[1])
        elif k == "at":
            self.t("@" + t[1])
        elif k == "prop":
            self.expr(t[1], P_CALL)
            self.t(".", t[2])
        elif k == "index":
            self.expr(t[1], P_CALL)
            self.t("[")
            self.expr(t[2])
            self.t("]")
        else:
            raise ValueError("printer: target %s" % k)

    def args(self, args):
        for i, a in enumerate(args):
            if i:
                self.t(",")
            self.expr(a, P_ASSIGN)

    # -------------------------------------------------------------- statements
    def block(self, stmts):
        self.t("{")
        self.depth += 1
        for s in stmts:
            self.stmt(s)
        self.depth -= 1
        self.boundary()
        self.t("}")

    def stmt(self, s):
        self.boundary()
        self.marks.setdefault(len(self.toks), []).append(s)
        k = s[0]
        if k == "expr":
            self.expr(s[1])
            self.t(";")
        elif k == "print":
            self.t("print", "(")
            self.expr(s[1])
            self.t(")", ";")
        elif k == "let":
            self.t("let", s[1])
            if s[2] is not None:
                self.t("=")
                self.expr(s[2])
            self.t(";")
        elif k == "fn":
            self.t("fn", s[1], "(")
            self.params(s[2])
            self.t(")")
            self.block(s[3])
        elif k == "class":
            self.klass(s)
        elif k == "if":
            self.if_(s)
        elif k == "while":
            self.t("while")
            self.expr(s[1])
            self.block(s[2])
        elif k == "for":
            self.t("for", s[1], "in")
            self.expr(s[2])
            self.block(s[3])
        elif k == "break":
            self.t("break", ";")
        elif k == "continue":
            self.t("continue", ";")
        elif k == "return":
            self.t("return")
            if s[1] is not None:
                self.expr(s[1])
            self.t(";")
        elif k == "implicit":
            self.expr(s[1])
        elif k == "try":
            self.t("try")
            self.block(s[1])
            for (var, cls, body) in s[2]:
                self.t("catch", var)
                if cls is not None:
                    self.t(":", cls)
                self.block(body)
        elif k == "raise":
            self.t("raise")
            self.expr(s[1])
            self.t(";")
        elif k == "launch":
            self.t("launch")
            self.expr(s[1])
            self.t(";")
        elif k == "export":
            self.t("export")
            # the inner declaration continues the same statement
            inner = s[1]
            saved = (dict(self.gap_stmt), len(self.toks))
            self.stmt(inner)
            # remove the boundary the inner statement added right after `export`
            self.gap_stmt.pop(saved[1], None)
        elif k == "import":
            self.t("import")
            path, form = s[1], s[2]
            self.t(path[0])
            for seg in path[1:]:
                self.t(".", seg)
            if form[0] == "whole":
                if form[1] is not None:
                    self.t("as", form[1])
            else:
                self.t(":", "{")
                for i, (name, alias) in enumerate(form[1]):
                    if i:
                        self.t(",")
                    self.t(name)
                    if alias is not None:
                        self.t("as", alias)
                self.t("}")
            self.t(";")
        else:
            raise ValueError("printer: stmt %s" % k)

    def params(self, ps):
        for i, p in enumerate(ps):
            if i:
                self.t(",")
            self.t(p)

    def if_(self, s):
        self.t("if")
        self.expr(s[1])
        self.block(s[2])
        if s[3] is not None:
            self.t("else")
            if isinstance(s[3], tuple) and s[3] and s[3][0] == "if":
                self.if_(s[3])
            else:
                self.block(s[3])

    def klass(self, s):
        _, name, parent, init, methods, statics = s
        self.t("class", name)
        if parent is not None:
            self.t(":", parent)
        self.t("{")
        self.depth += 1
        if init is not None:
            self.method(init, False)
        for m in methods:
            self.method(m, False)
        for m in statics:
            self.method(m, True)
        self.depth -= 1
        self.boundary()
        self.t("}")

    def method(self, m, static):
        self.boundary()
        if static:
            self.t("static")
        self.t(m[0], "(")
        self.params(m[1])
        self.t(")")
        self.block(m[2])


def _word(ch):
    return ch.isalnum() or ch == "_" or ch in "?!@" or ord(ch) > 127


def can_join(a, b):
    """May tokens a and b be written with nothing between them?"""
    if not a or not b:
        return True
    x, y = a[-1], b[0]
    if a in TIGHT or b in TIGHT:
        if x == "." and y.isdigit():
            return False
        if x.isdigit() and y == "." and False:
            return False
        # `x.` then digit cannot happen; `)` or `]` before a word needs a space for readability only
        if _word(x) and _word(y):
            return False
        return True
    return False


class Layout:
    """How gaps are filled.

    mode: 'pretty' (one statement per line, indented), 'compact' (everything on one line,
    single spaces), 'tight' (one line, no space where none is needed), 'noisy' (gap fillers
    are drawn: `noise` is a list of small integers consumed cyclically).
    keep_lines: statement internal gaps never contain a newline (line sensitive checks).
    """

    def __init__(self, mode="pretty", noise=None, keep_lines=True):
        self.mode = mode
        self.noise = noise or [0]
        self.keep_lines = keep_lines


NOISE_IN = [" ", "  ", "\t", " ", "\n", " // c\n", "\r\n", " "]
NOISE_STMT = ["\n", "\n\n", " ", "\n// comment ; } {\n", "\n  \n", "\t", "\n", " // c\n"]


def render(p, layout):
    """Join the printer's tokens. Returns (text, {id(stmt): line})."""
    out = []
    line = 1
    lines = {}
    mode = layout.mode
    ni = 0
    noise = layout.noise
    for i, tok in enumerate(p.toks):
        if i > 0:
            prev = p.toks[i - 1]
            if i in p.gap_stmt:
                depth = p.gap_stmt[i]
                if mode == "pretty":
                    gap = "\n" + "  " * depth
                elif mode == "compact":
                    gap = " "
                elif mode == "tight":
                    gap = "" if can_join(prev, tok) else " "
                else:
                    gap = NOISE_STMT[noise[ni % len(noise)] % len(NOISE_STMT)]
                    ni += 1
                    if gap.strip() == "" and "\n" not in gap and not gap:
                        gap = " "
            else:
                if mode in ("pretty", "compact"):
                    gap = "" if (can_join(prev, tok) and (prev in "([." or tok in ")],;.")) else " "
                    if prev == "{" or tok == "}":
                        gap = " "
                    if prev == "{" and tok == "}":
                        gap = ""
                elif mode == "tight":
                    gap = "" if can_join(prev, tok) else " "
                else:
                    gap = NOISE_IN[noise[ni % len(noise)] % len(NOISE_IN)]
                    ni += 1
                    if layout.keep_lines and "\n" in gap:
                        gap = " "
            out.append(gap)
            line += gap.count("\n")
        for s in p.marks.get(i, ()):
            lines[id(s)] = line
        out.append(tok)
        line += tok.count("\n")
    return "".join(out), lines


def to_source(stmts, mode="pretty", parens="min", quote_char='"', noise=None, paren_bits=None, keep_lines=True):
    p = Printer(parens, quote_char, paren_bits)
    for s in stmts:
        p.stmt(s)
    return render(p, Layout(mode, noise, keep_lines))
