"""Value universe of the reference evaluator and Laythe's number/string formatting."""
import math
from decimal import Decimal


class Undefined:
    def __repr__(self):
        return "<undefined>"


UNDEF = Undefined()


class Cell:
    """A variable. Closures capture cells, so sharing is by reference."""
    __slots__ = ("v", "w", "home", "kind")

    def __init__(self, v=None, home=0, kind="let"):
        self.v = v
        self.w = home  # activation that last wrote it
        self.home = home  # activation that declared it
        self.kind = kind


class LObj:
    """Anything with identity."""
    __slots__ = ()


class LList(LObj):
    __slots__ = ("items", "cap")

    def __init__(self, items):
        self.items = items
        # capacity of the vm's vector, to know when it has to grow (a list literal of n elements has room for
        # max(n, 4), measured on the tree; lists built by natives may differ: the count is only used for labels)
        self.cap = max(len(items), 4)


class LTuple(LObj):
    __slots__ = ("items",)

    def __init__(self, items):
        self.items = tuple(items)


class LMap(LObj):
    """Insertion ordered dict from model keys to (key value, value)."""
    __slots__ = ("d",)

    def __init__(self):
        self.d = {}


class LClass(LObj):
    __slots__ = ("name", "parent", "fields", "methods", "statics", "decl", "native_kind")

    def __init__(self, name, parent=None, native_kind=None):
        self.name = name
        self.parent = parent
        self.fields = list(parent.fields) if parent is not None else []
        self.methods = {}
        self.statics = {}
        self.decl = None
        self.native_kind = native_kind

    def find_method(self, name):
        c = self
        while c is not None:
            if name in c.methods:
                return c.methods[name]
            c = c.parent
        return None

    def is_subclass(self, other):
        c = self
        while c is not None:
            if c is other:
                return True
            c = c.parent
        return False


class LInstance(LObj):
    __slots__ = ("cls", "fields")

    def __init__(self, cls):
        self.cls = cls
        self.fields = {f: None for f in cls.fields}


class LClosure(LObj):
    __slots__ = ("name", "params", "body", "env", "kind", "owner", "module", "home", "def_line")

    def __init__(self, name, params, body, env, kind="fn", owner=None, module=None, home=0):
        self.def_line = 0  # source line of a lambda expression (its body, when the body is an expression)
        self.home = home  # activation that created the closure
        self.name = name
        self.params = params
        self.body = body
        self.env = env
        self.kind = kind  # fn | method | init | static | lambda
        self.owner = owner  # LClass for methods (lexical class, used by super)
        self.module = module


class LBound(LObj):
    __slots__ = ("recv", "fn")

    def __init__(self, recv, fn):
        self.recv = recv
        self.fn = fn


class LNative(LObj):
    """A builtin function or method. `fn(interp, recv, args)`; arity = (min, max|None)."""
    __slots__ = ("name", "fn", "arity", "kinds", "is_method", "stack")

    def __init__(self, name, fn, arity, kinds=(), is_method=True):
        self.stack = False  # runs with a stub frame of its own ('native:0 in <name>()' in tracebacks)
        self.name = name
        self.fn = fn
        self.arity = arity
        self.kinds = kinds
        self.is_method = is_method


class LChannel(LObj):
    __slots__ = ("cap", "buf", "closed", "cid")

    def __init__(self, cap, cid=0):
        self.cap = cap  # 0 = sync
        self.buf = []
        self.closed = False
        self.cid = cid


class LIter(LObj):
    """Iterator protocol: `gen` is a python generator of values; current starts at nil."""
    __slots__ = ("gen", "current", "done", "name")

    def __init__(self, gen, name="iter"):
        self.gen = gen
        self.current = None
        self.done = False
        self.name = name

    def next(self):
        if self.done:
            return False
        try:
            self.current = next(self.gen)
            return True
        except StopIteration:
            self.done = True
            self.current = None
            return False


class LModuleObj(LObj):
    """The object an `import x` binds: exposes exactly the exports."""
    __slots__ = ("name", "exports")

    def __init__(self, name, exports):
        self.name = name
        self.exports = exports


def is_falsey(v):
    return v is None or v is False


def fmt_num(x):
    """Rust's `Display for f64`: shortest round trip digits, never an exponent.

    Python's repr is shortest round trip too; the two differ only when two shortest candidates
    are exactly equally close to the value (python then rounds half to even, Rust rounds the
    magnitude up), e.g. -999999999999993.25 -> python ...993.2, Rust ...993.3."""
    if x != x:
        return "NaN"
    if x == math.inf:
        return "inf"
    if x == -math.inf:
        return "-inf"
    if x == 0.0:
        return "-0" if math.copysign(1.0, x) < 0 else "0"
    d = Decimal(repr(float(x)))
    sign, digits, exp = d.as_tuple()
    q = Decimal((0, (1,), exp))
    exact = Decimal(float(x))
    if abs(exact) - abs(d) == q / 2:
        cand = abs(d) + q
        if float(cand) == abs(x):
            d = cand.copy_sign(d)
    s = format(d, "f")
    if "." in s:
        s = s.rstrip("0").rstrip(".")
    return s


def type_name(v):
    if v is None:
        return "nil"
    if isinstance(v, bool):
        return "bool"
    if isinstance(v, float):
        return "number"
    if isinstance(v, str):
        return "string"
    return type(v).__name__


class NanKey(Exception):
    """NaN used as a map key: unspecified (see C14), the model declines."""


def key_of(v):
    """Model key for map lookups / identity comparisons."""
    if v is None:
        return ("nil",)
    if v is True or v is False:
        return ("b", v)
    if isinstance(v, float):
        if v != v:
            raise NanKey()
        return ("n", v + 0.0)  # -0.0 + 0.0 == 0.0
    if isinstance(v, str):
        return ("s", v)
    return ("o", id(v))


def values_equal(a, b):
    if isinstance(a, float) and isinstance(b, float):
        return a == b
    if isinstance(a, bool) or isinstance(b, bool):
        return a is b
    if a is None or b is None:
        return a is b
    if isinstance(a, str) and isinstance(b, str):
        return a == b
    if isinstance(a, (float, str)) or isinstance(b, (float, str)):
        return False
    return a is b
