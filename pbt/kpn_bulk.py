"""Mode B ("bulk") networks: ONE channel whose capacity and traffic are large (up to a few thousand values) instead of
the handful of values of modes D and M. The program is written with loops, so its size does not grow with the traffic.

  shape 0  one fiber fills the channel with n <= capacity values (no receiver exists: a send that parks is a deadlock),
           reads len(), closes, drains until nil
  shape 1  main launches a consumer and sends n values (n may exceed the capacity), then closes; the consumer drains
           until nil and reports through a result channel
  shape 2  main launches the producer and drains the channel itself

Shape 0 has one fiber and an exact expected output. Shapes 1 and 2 are judged by what holds under every schedule:
capacity() is the capacity asked for, all n values arrive once and in order, then nil, len() never exceeds the capacity,
and the consumer's first value arrives when main has sent at most min(n, capacity) values."""
from hypothesis import strategies as st

from .runner import Failure

BOUNDARY = [15, 16, 17, 255, 256, 257, 1023, 1024, 1025, 2047, 2048, 2049, 4096]


@st.composite
def bulk_network(draw):
    cap = draw(st.one_of(st.integers(1, 8), st.sampled_from(BOUNDARY), st.integers(1, 5000)))
    n = draw(st.one_of(st.just(cap), st.just(cap + 1), st.just(max(1, cap - 1)), st.integers(1, 5000),
                       st.just(cap + draw(st.integers(1, 40)))))
    shape = draw(st.integers(0, 2))
    if shape == 0:
        n = min(n, cap)
    return {"mode": "B", "cap": cap, "n": n, "shape": shape, "boxed": draw(st.integers(0, 3)) == 0,
            "as_arg": draw(st.booleans())}


def build_source(net):
    cap, n, shape = net["cap"], net["n"], net["shape"]
    if shape == 0:
        n = min(n, cap)
    val = "[i]" if net["boxed"] else "i"
    got = "v[0]" if net["boxed"] else "v"
    drain = ("  let count = 0; let ordered = true; let last = 0;\n"
             "  while true {\n"
             "    let v = <- d;\n"
             "    if v == nil { break; }\n"
             "    if count == 0 { ahead = sent; }\n"
             "    if d.len() > high { high = d.len(); }\n"
             "    count = count + 1;\n"
             "    if %s != last + 1 { ordered = false; }\n"
             "    last = %s;\n"
             "  }\n" % (got, got))
    fill = ("  let i = 0;\n"
            "  while i < %d {\n"
            "    i = i + 1;\n"
            "    d <- %s;\n"
            "    sent = sent + 1;\n"
            "    if d.len() > high { high = d.len(); }\n"
            "  }\n" % (n, val))
    head = "let data = chan(%d);\nlet sent = 0;\nlet high = 0;\nlet ahead = -1;\nprint('cap ${data.capacity()}');\n" % cap
    if shape == 0:
        return (head + "fn solo(d) {\n" + fill + "  print('len ${d.len()}');\n  d.close();\n" + drain +
                "  print('count ${count} ordered ${ordered}');\n}\nsolo(data);\nprint('high ${high}');\nprint('END');\n")
    param = "d, " if net["as_arg"] else ""
    arg = "data, " if net["as_arg"] else ""
    bind = "" if net["as_arg"] else "  let d = data;\n"
    producer = "fn producer(%sres) {\n%s%s  d.close();\n  res <- sent;\n}\n" % (param, bind, fill)
    consumer = "fn consumer(%sres) {\n%s%s  res <- 'count ${count} ordered ${ordered}';\n}\n" % (param, bind, drain)
    tail = "print('ahead ${ahead}');\nprint('high ${high}');\nprint('END');\n"
    if shape == 1:
        return (head + "let res = chan(1);\n" + consumer + "launch consumer(%sres);\n" % arg +
                "fn main_part(d) {\n" + fill + "  d.close();\n}\nmain_part(data);\nprint(<- res);\n" + tail)
    return (head + "let res = chan(1);\nlet out = chan(1);\n" + producer + consumer +
            "launch producer(%sres);\nconsumer(%sout);\nprint(<- out);\nprint('sent ${<- res}');\n" % (arg, arg) + tail)


def expected(net):
    cap, n, shape = net["cap"], net["n"], net["shape"]
    if shape == 0:
        n = min(n, cap)
        return "cap %d\nlen %d\ncount %d ordered true\nhigh %d\nEND\n" % (cap, n, n, n)
    return None  # shapes 1 and 2 involve two fibers: judged by a predicate that holds under every schedule


def budget(net):
    return 4_000_000 + 400 * net["n"]


def failure(prop, net, r, src, progress_only=False):
    out = r.get("stdout") or ""
    info = {"source": src}
    desc = "capacity %d, %d values, shape %d\nvm outcome %s %s\nstdout: %s\nstderr: %s\n--- source\n%s" % (
        net["cap"], net["n"], net["shape"], r.get("outcome"), r.get("code"), out[-300:], (r.get("stderr") or "").strip()[-300:], src)
    if "Fatal error deadlock." in (r.get("stderr") or ""):
        return Failure("%s/bulk/spurious-deadlock" % prop, "deadlock reported although every fiber can finish\n" + desc, info)
    if r.get("outcome") == "budget":
        return Failure("%s/bulk/spins" % prop, "the network exceeded its step budget\n" + desc, info)
    if r.get("outcome") != "ok" or not out.endswith("END\n"):
        return Failure("%s/bulk/unexpected-outcome" % prop, "unexpected outcome\n" + desc, info)
    if progress_only:
        return None
    want = expected(net)
    if want is not None:
        if out != want:
            return Failure("%s/bulk/output" % prop, "expected\n%s\n%s" % (want, desc), info)
        return None
    lines = out.split("\n")
    n, cap = net["n"], net["cap"]
    try:
        high = int([l for l in lines if l.startswith("high ")][0][5:])
    except (IndexError, ValueError):
        return Failure("%s/bulk/output" % prop, "no high-water mark printed\n" + desc, info)
    sent_ok = net["shape"] != 2 or "sent %d" % n in lines
    ahead_ok = True
    if net["shape"] == 1:
        # how many values main had sent when the consumer got its first one: never more than the channel holds
        try:
            ahead = int([l for l in lines if l.startswith("ahead ")][0][6:])
            ahead_ok = 0 <= ahead <= min(n, cap)
        except (IndexError, ValueError):
            ahead_ok = False
    if lines[0] != "cap %d" % cap or "count %d ordered true" % n not in lines or not sent_ok or not ahead_ok or high > cap:
        return Failure("%s/bulk/output" % prop, "expected cap %d, count %d ordered true, every value sent, ahead <= min(n, cap), high <= %d\n%s" %
                       (cap, n, cap, desc), info)
    return None
