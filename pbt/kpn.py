"""Process networks for C07 / C08: generator, Laythe program builder and the Kahn-style model.

A network is (channels, fibers). channels: list of capacities (0 = synchronous). fibers: list
of scripts, fiber 0 is main. Every data channel has exactly one sending and one receiving fiber
(mode D), so the network is determinate: whatever the schedule, each fiber performs the same
sequence of completed operations. Script operations:

    ("send", c, v)      c <- v
    ("recv", c)         <- c
    ("close", c)        c.close()        (by the channel's writer, after which it only try-sends)
    ("trysend", c, v)   try { c <- v; } catch e { ... }
    ("launch", f)       launch fiber f   (each fiber is launched exactly once, by main or by a fiber)
    ("work", k)         k loop iterations of plain computation (no channel operation)

After its script every launched fiber sends its log (list of received values) on its own
result channel; main finally receives the result channels of all fibers in index order.
"""
from hypothesis import strategies as st

N = lambda x: ("num", float(x))  # noqa: E731
V = lambda n: ("var", n)  # noqa: E731
S = lambda s: ("str", s)  # noqa: E731


# --------------------------------------------------------------------------------------------- generator
HAZARD_CLOSE = "close-by-non-sender-with-receiver"


@st.composite
def network(draw, unbalanced=False, hazards=()):
    nf = draw(st.integers(1, 5))  # launched fibers
    nc = draw(st.integers(1, 4))
    caps = [draw(st.sampled_from([0, 0, 1, 2, 3, 5])) for _ in range(nc)]
    writer = [draw(st.integers(0, nf)) for _ in range(nc)]
    reader = []
    for c in range(nc):
        r = draw(st.integers(0, nf - 1))
        if r >= writer[c]:
            r += 1  # reader != writer
        reader.append(r)
    # fan out: one fiber writes (and finally closes) several channels read by different fibers, so that when it
    # ends several parked readers become resumable at once, each through a different channel of its used list
    fanout = nc >= 2 and nf >= 2 and draw(st.integers(0, 5)) == 0
    if fanout:
        w = draw(st.integers(0, nf))
        others = [f for f in range(nf + 1) if f != w]
        for c in range(nc):
            writer[c] = w
            reader[c] = others[(c + draw(st.integers(0, len(others) - 1))) % len(others)] if c else others[draw(st.integers(0, len(others) - 1))]
    # per channel: number of values; the plan is balanced unless `unbalanced`
    scripts = [[] for _ in range(nf + 1)]
    seq = [0] * (nf + 1)
    plan = []
    for c in range(nc):
        k = draw(st.integers(0, 4))
        plan.append(k)
    # interleave: each fiber gets its sends / recvs in a drawn order
    per_fiber_ops = [[] for _ in range(nf + 1)]
    for c in range(nc):
        sends = plan[c]
        recvs = plan[c]
        closes = draw(st.integers(0, 3)) == 0 or (fanout and draw(st.integers(0, 3)) != 0)
        if unbalanced:
            d = draw(st.integers(0, 5))
            if d == 0:
                recvs += 1  # a receive nobody feeds (deadlock unless the channel is closed)
            elif d == 1 and sends > 0:
                sends -= 1
                recvs = sends + 1
            elif d == 2:
                sends += 1  # a value nobody takes (blocks a sync / full sender)
        w, r = writer[c], reader[c]
        if closes and sends == 0 and HAZARD_CLOSE in hazards:
            # known finding: close() by a fiber that never sent on the channel does not wake a parked receiver.
            # Excluded by construction: such a channel gets no receives at all.
            recvs = 0
            no_extra = True
        else:
            no_extra = False
        for _ in range(sends):
            per_fiber_ops[w].append(("send", c))
        if closes:
            per_fiber_ops[w].append(("close", c))
            if draw(st.booleans()):
                per_fiber_ops[w].append(("trysend", c))
            extra = 0 if no_extra else (draw(st.integers(1, 2)) if fanout else draw(st.integers(0, 2)))
            for _ in range(extra):
                per_fiber_ops[r].append(("recv", c))  # receives after close yield nil
        for _ in range(recvs):
            per_fiber_ops[r].append(("recv", c))
    for f in range(nf + 1):
        ops = per_fiber_ops[f]
        # a drawn order that keeps each channel's own operations in sequence (close after sends...)
        order = []
        pools = {}
        for op in ops:
            pools.setdefault(op[1], []).append(op)
        keys = sorted(pools)
        while keys:
            k = keys[draw(st.integers(0, len(keys) - 1))]
            order.append(pools[k].pop(0))
            if not pools[k]:
                keys.remove(k)
        for op in order:
            if op[0] in ("send", "trysend"):
                seq[f] += 1
                scripts[f].append((op[0], op[1], f * 1000 + seq[f]))
            else:
                scripts[f].append(op)
            if draw(st.integers(0, 5)) == 0:
                scripts[f].append(("work", draw(st.integers(1, 3))))
    # launches: every fiber 1..nf is launched once, by main or (sometimes) by a lower numbered fiber
    for f in range(1, nf + 1):
        launcher = 0
        if f > 1 and draw(st.integers(0, 3)) == 0:
            launcher = draw(st.integers(1, f - 1))
        pos = draw(st.integers(0, len(scripts[launcher])))
        if launcher != 0:
            pos = min(pos, 1)  # early, so the launcher does not block before launching
        scripts[launcher].insert(pos, ("launch", f))
    # passing style per fiber: which channels arrive as arguments (the rest are captured module variables)
    # 3: like 1, but the fiber's function is a closure made on the spot by a maker (launch mk(tag, chans)()): its
    # captures are referenced by nothing but the running frame
    # 4: like 1, but the fiber's function is a method of an instance that keeps the tag (launch FiberK(tag).run(chans)):
    # the new fiber's receiver slot must hold the instance
    argstyle = [draw(st.integers(0, 4)) for _ in range(nf + 1)]
    tags = [draw(st.integers(1, 99)) for _ in range(nf + 1)]
    # payload style: plain numbers, or every value boxed in a fresh list (a heap object that only the channel's
    # buffer / the parked sender keeps alive while it is in flight)
    boxed = draw(st.integers(0, 2)) == 0
    return {"caps": caps, "scripts": scripts, "argstyle": argstyle, "tags": tags, "boxed": boxed}


# --------------------------------------------------------------------------------------------- model
class ModelResult:
    def __init__(self):
        self.lines = {}  # fiber -> list of lines (without the F<id> prefix and clock)
        self.outcome = None  # complete | deadlock
        self.blocked_ops = 0
        self.exchanged = 0
        self.steps = 0
        self.sync_values = set()


def chan_name(c):
    return "c%d" % c


def run_model(net):
    caps = net["caps"]
    scripts = net["scripts"]
    nfib = len(scripts)
    res = ModelResult()
    buf = [[] for _ in caps]
    closed = [False] * len(caps)
    # result channels: one per launched fiber, capacity 1
    rbuf = [None] * nfib
    logs = [[] for _ in range(nfib)]
    pc = [0] * nfib
    started = [False] * nfib
    started[0] = True
    phase = [0] * nfib  # 1: sync send offered, waiting for the value to be taken
    done = [False] * nfib
    joined = 0  # main: how many result channels received
    lines = {f: [] for f in range(nfib)}
    ever_blocked = set()

    def emit(f, text):
        lines[f].append(text)

    for f in range(nfib):
        pass
    emit(0, "start %d" % net["tags"][0])

    def step(f):
        """Try to advance fiber f by one operation. Returns True if progress was made."""
        nonlocal joined
        if not started[f] or done[f]:
            return False
        sc = scripts[f]
        if pc[f] >= len(sc):
            # epilogue
            if f == 0:
                if joined < nfib - 1:
                    target = joined + 1
                    if rbuf[target] is not None:
                        emit(0, "join %d %s" % (target, fmt_list(rbuf[target])))
                        rbuf[target] = None
                        joined += 1
                        return True
                    ever_blocked.add((f, "join", target))
                    return False
                done[0] = True
                return True
            # launched fiber: send the log on the result channel (capacity 1, single use)
            rbuf[f] = list(logs[f])
            done[f] = True
            return True
        op = sc[pc[f]]
        k = op[0]
        if k == "work":
            emit(f, "work %d" % op[1])
            pc[f] += 1
            return True
        if k == "launch":
            t = op[1]
            started[t] = True
            emit(t, "start %d" % net["tags"][t])
            pc[f] += 1
            return True
        c = op[1]
        if k == "close":
            closed[c] = True
            emit(f, "close %s" % chan_name(c))
            pc[f] += 1
            return True
        if k in ("send", "trysend"):
            v = op[2]
            if phase[f] == 1:
                # synchronous send already offered: completes once the value has been taken
                if v not in buf[c]:
                    phase[f] = 0
                    emit(f, "send %s %d" % (chan_name(c), v))
                    pc[f] += 1
                    return True
                ever_blocked.add((f, pc[f]))
                return False
            if closed[c]:
                if k == "trysend":
                    emit(f, "send-closed %s" % chan_name(c))
                    pc[f] += 1
                    return True
                raise AssertionError("plain send after close is not generated")
            cap = caps[c]
            if cap == 0:
                if not buf[c]:
                    buf[c].append(v)
                    phase[f] = 1
                    res.sync_values.add(v)
                    return True
                ever_blocked.add((f, pc[f]))
                return False
            if len(buf[c]) < cap:
                buf[c].append(v)
                emit(f, "send %s %d" % (chan_name(c), v))
                pc[f] += 1
                return True
            ever_blocked.add((f, pc[f]))
            return False
        if k == "recv":
            if buf[c]:
                v = buf[c].pop(0)
                logs[f].append(v)
                res.exchanged += 1
                emit(f, "recv %s %d" % (chan_name(c), v))
                pc[f] += 1
                return True
            if closed[c]:
                emit(f, "recv %s nil" % chan_name(c))
                pc[f] += 1
                return True
            ever_blocked.add((f, pc[f]))
            return False
        raise AssertionError(k)

    progress = True
    while progress and not done[0]:
        progress = False
        for f in range(nfib):
            while step(f):
                progress = True
                res.steps += 1
                if done[0]:
                    break
            if done[0]:
                break
    res.lines = lines
    res.outcome = "complete" if done[0] else "deadlock"
    res.blocked_ops = len(ever_blocked)
    res.all_done = all(done[f] or not started[f] for f in range(nfib))
    res.unstarted = [f for f in range(nfib) if not started[f]]
    return res


def fmt_list(vals):
    return "[" + ", ".join(str(v) for v in vals) + "]"


# --------------------------------------------------------------------------------------------- program
def build_program(net):
    caps = net["caps"]
    scripts = net["scripts"]
    nfib = len(scripts)
    prog = []
    prog.append(("let", "clock", N(0)))
    prog.append(("fn", "tick", [], [("expr", ("opassign", "+", V("clock"), N(1))), ("return", V("clock"))]))
    prog.append(("fn", "chk", ["c"], [("if", ("bin", ">", ("call", ("prop", V("c"), "len"), []), ("call", ("prop", V("c"), "capacity"), [])),
                                       [("print", S("CAPACITY EXCEEDED"))], None)]))
    for c, cap in enumerate(caps):
        prog.append(("let", chan_name(c), ("chan", None if cap == 0 else N(cap))))
    for f in range(1, nfib):
        prog.append(("let", "r%d" % f, ("chan", N(1))))

    def say(f, parts):
        # print("F<f> <text...> @<clock>")
        return ("print", ("interp", ["F%d " % f] + parts + [" @", ("call", V("tick"), [])]))

    def used(f):
        out = []
        for op in scripts[f]:
            if op[0] in ("send", "recv", "close", "trysend") and op[1] not in out:
                out.append(op[1])
        return out

    def params_of(f):
        style = net["argstyle"][f]
        cs = used(f)
        if style == 0:
            return []
        if style in (1, 3, 4):
            return cs
        return cs[::2]

    def cref(f, c, params):
        return V("p_" + chan_name(c)) if c in params else V(chan_name(c))

    boxed = net.get("boxed", False)

    def payload(v):
        return ("list", [N(v)]) if boxed else N(v)

    def body_of(f):
        params = params_of(f) if f != 0 else []
        body = []
        if f != 0:
            body.append(say(f, ["start ", V("tag")]))
            body.append(("let", "log", ("list", [])))
        else:
            body.append(say(0, ["start %d" % net["tags"][0]]))
        for op in scripts[f]:
            k = op[0]
            if k == "work":
                wn = "w%d_%d" % (f, len(body))
                body.append(("let", wn, N(0)))
                body.append(("for", wn + "i", ("call", ("prop", N(op[1]), "times"), []),
                             [("expr", ("opassign", "+", V(wn), V(wn + "i")))]))
                body.append(say(f, ["work %d" % op[1]]))
            elif k == "launch":
                t = op[1]
                tparams = params_of(t)
                args = [N(net["tags"][t])] + [cref(f, c, params) for c in tparams]
                if net["argstyle"][t] == 4:
                    body.append(("launch", ("call", ("prop", ("call", V("Fiber%d" % t), args[:1]), "run"), args[1:])))
                elif net["argstyle"][t] == 3:
                    body.append(("launch", ("call", ("call", V("fiber%d" % t), args), [])))
                else:
                    body.append(("launch", ("call", V("fiber%d" % t), args)))
            elif k == "close":
                body.append(("expr", ("call", ("prop", cref(f, op[1], params), "close"), [])))
                body.append(say(f, ["close %s" % chan_name(op[1])]))
            elif k == "send":
                body.append(("expr", ("send", cref(f, op[1], params), payload(op[2]))))
                body.append(say(f, ["send %s %d" % (chan_name(op[1]), op[2])]))
                body.append(("expr", ("call", V("chk"), [cref(f, op[1], params)])))
            elif k == "trysend":
                body.append(("try", [("expr", ("send", cref(f, op[1], params), payload(op[2]))),
                                     say(f, ["send %s %d" % (chan_name(op[1]), op[2])])],
                             [("e", None, [say(f, ["send-closed %s" % chan_name(op[1])])])]))
            elif k == "recv":
                tmp = "v%d" % len(body)
                if boxed:
                    body.append(("let", tmp + "b", ("recv", cref(f, op[1], params))))
                    body.append(("let", tmp, ("tern", ("bin", "==", V(tmp + "b"), ("nil",)), ("nil",),
                                              ("index", V(tmp + "b"), N(0)))))
                else:
                    body.append(("let", tmp, ("recv", cref(f, op[1], params))))
                body.append(say(f, ["recv %s " % chan_name(op[1]), V(tmp)]))
                if f != 0:
                    body.append(("if", ("bin", "!=", V(tmp), ("nil",)), [("expr", ("call", ("prop", V("log"), "push"), [V(tmp)]))], None))
                body.append(("expr", ("call", V("chk"), [cref(f, op[1], params)])))
        if f != 0:
            body.append(("expr", ("send", V("r%d" % f), V("log"))))
        else:
            for t in range(1, nfib):
                tmp = "j%d" % t
                body.append(("let", tmp, ("recv", V("r%d" % t))))
                body.append(say(0, ["join %d " % t, V(tmp)]))
        return params, body

    bodies = {}
    for f in range(nfib - 1, 0, -1):
        params, body = body_of(f)
        bodies[f] = (params, body)
    # functions are module level symbols, so forward references between them resolve at run time
    for f in range(1, nfib):
        params, body = bodies[f]
        if net["argstyle"][f] == 4:
            prog.append(("class", "Fiber%d" % f, None,
                         ("init", ["tag"], [("expr", ("assign", ("prop", ("self",), "tag"), V("tag")))]),
                         [("run", ["p_" + chan_name(c) for c in params], [("let", "tag", ("prop", ("self",), "tag"))] + body)], []))
        elif net["argstyle"][f] == 3:
            # the maker returns the fiber's body as a closure over its own parameters
            prog.append(("fn", "fiber%d" % f, ["tag"] + ["p_" + chan_name(c) for c in params],
                         [("return", ("lambda", [], ("block", body)))]))
        else:
            prog.append(("fn", "fiber%d" % f, ["tag"] + ["p_" + chan_name(c) for c in params], body))
    _, mbody = body_of(0)
    prog.extend(mbody)
    return prog


# --------------------------------------------------------------------------------------------- parsing vm output
def parse_output(stdout):
    """-> (per fiber lines without clock, clock map {(fiber, text): t}, stray lines)"""
    per = {}
    clocks = {}
    stray = []
    for line in stdout.split("\n"):
        if not line:
            continue
        if line.startswith("F") and " @" in line:
            head, _, t = line.rpartition(" @")
            fid, _, text = head.partition(" ")
            try:
                f = int(fid[1:])
                tt = int(t)
            except ValueError:
                stray.append(line)
                continue
            per.setdefault(f, []).append(text)
            clocks[(f, text)] = tt
        else:
            stray.append(line)
    return per, clocks, stray
