"""Check runner: replay tier, sharded Hypothesis search, evidence, known findings.

A check module (pbt/checks/cXX.py) exposes:

    PROPERTY = "C01"
    LEVEL = "exploration"
    VARIANTS = ("dbg", "rel")            # worker builds it needs
    RULE = "..."                         # how cases are generated / what is non trivial
    ASSUMPTIONS = [...]
    def cases(tier): -> int             # number of generated cases for the tier (all shards together)
    def strategy(hazards): -> hypothesis strategy producing a JSON-able case (tuples/lists/str/float/None/bool)
    def run_case(case, ctx): -> Outcome # evaluates one case on the real vm + oracle
    def extra(tier, ctx): -> list[Outcome]   (optional) deterministic / enumerated cases outside Hypothesis
    GATES = {"label": min_fraction}      (optional) sanity gate on the label histogram

Exit codes: 0 held, 1 violation (with VIOLATION line), 2 infrastructure / inconclusive.
"""
import hashlib
import importlib
import json
import math
import os
import subprocess
import sys
import time

from . import build as _build
from . import worker as _worker

VERIF = os.path.dirname(os.path.dirname(os.path.abspath(__file__)))
N_SHARDS = int(os.environ.get("VERIF_SHARDS", "16"))


# --------------------------------------------------------------------------- case encoding
def enc(x):
    if isinstance(x, tuple):
        return {"t": [enc(y) for y in x]}
    if isinstance(x, list):
        return [enc(y) for y in x]
    if isinstance(x, dict):
        return {"d": [[enc(k), enc(v)] for k, v in x.items()]}
    if isinstance(x, float):
        if x != x:
            return {"f": "nan"}
        if x in (math.inf, -math.inf):
            return {"f": "inf" if x > 0 else "-inf"}
        if x == 0.0 and math.copysign(1.0, x) < 0:
            return {"f": "-0"}
        return x
    return x


def dec(x):
    if isinstance(x, dict):
        if "t" in x:
            return tuple(dec(y) for y in x["t"])
        if "d" in x:
            return {dec(k): dec(v) for k, v in x["d"]}
        if "f" in x:
            return {"nan": math.nan, "inf": math.inf, "-inf": -math.inf, "-0": -0.0}[x["f"]]
    if isinstance(x, list):
        return [dec(y) for y in x]
    if isinstance(x, int) and not isinstance(x, bool):
        return x
    return x


class Outcome:
    """Result of evaluating one case."""
    __slots__ = ("key", "nontrivial", "labels", "failure", "sample", "discarded", "runs", "excluded")

    def __init__(self, key=None, nontrivial=False, labels=(), failure=None, sample=None, discarded=None, runs=1,
                 excluded=None):
        self.key = key  # text identifying the case (hashed for distinctness)
        self.nontrivial = nontrivial
        self.labels = labels
        self.failure = failure  # None | Failure
        self.sample = sample  # JSON-able short rendering of the case
        self.discarded = discarded  # None | reason (model budget, unsupported...)
        self.runs = runs  # vm executions used
        self.excluded = excluded


class Failure:
    __slots__ = ("sig", "detail", "info")

    def __init__(self, sig, detail, info=None):
        self.sig = sig  # normalised signature, keys known findings
        self.detail = detail  # human readable
        self.info = info or {}  # JSON-able extra (source, expected, got)


class Ctx:
    """Gives run_case access to workers and configuration."""

    def __init__(self, hazards=(), tier="quick", seed=0, strict=False):
        self.hazards = set(hazards)
        self.tier = tier
        self.seed = seed
        self.strict = strict
        self.workers = {}

    def worker(self, variant="dbg"):
        w = self.workers.get(variant)
        if w is None:
            w = _worker.Worker(variant)
            self.workers[variant] = w
        return w

    def close(self):
        for w in self.workers.values():
            w.close()
        self.workers.clear()


# --------------------------------------------------------------------------- known findings
class Known:
    def __init__(self):
        self.findings = []  # dicts: property sig replay hazard text
        self.fixed = []
        path = os.path.join(VERIF, "KNOWN_FINDINGS.txt")
        if not os.path.exists(path):
            return
        for line in open(path, encoding="utf-8"):
            line = line.strip()
            if not line or line.startswith("#"):
                continue
            if line.startswith("finding:"):
                head, _, text = line[len("finding:"):].partition("::")
                d = {"text": text.strip()}
                for tok in head.split():
                    if "=" in tok:
                        k, _, v = tok.partition("=")
                        d[k] = v
                self.findings.append(d)
            elif line.startswith("fixed:"):
                self.fixed.append(line[len("fixed:"):].strip())

    def hazards(self):
        out = set()
        for f in self.findings:
            h = f.get("hazard")
            if h and h != "-":
                for x in h.split(","):
                    out.add(x)
        return out

    def for_property(self, pid):
        return [f for f in self.findings if f.get("property") == pid]

    def sigs(self):
        return set(f.get("sig") for f in self.findings)


def sha(text):
    return hashlib.sha1(text.encode("utf-8", "replace")).hexdigest()[:16]


# --------------------------------------------------------------------------- shard (child process)
def shard_main(argv):
    """python3-vt -m pbt.runner shard <module> <shard> <n_cases> <seed> <tier> <out.json>"""
    mod_name, shard, n, seed, tier, out_path = argv[0], int(argv[1]), int(argv[2]), int(argv[3]), argv[4], argv[5]
    from hypothesis import HealthCheck, Phase, given, settings
    from hypothesis import seed as hseed
    mod = importlib.import_module("pbt.checks." + mod_name)
    known = Known()
    hazards = known.hazards()
    known_sigs = known.sigs()
    ctx = Ctx(hazards, tier, seed)
    state = {"evals": 0, "runs": 0, "keys": set(), "labels": {}, "samples": [], "discard": {}, "known_hits": {},
             "target": None, "last_fail": None, "excluded": {}, "nt_samples": []}

    def record(case, o, counting):
        if counting:
            state["evals"] += 1
            state["runs"] += o.runs
            if o.discarded:
                state["discard"][o.discarded] = state["discard"].get(o.discarded, 0) + 1
            if o.excluded:
                state["excluded"][o.excluded] = state["excluded"].get(o.excluded, 0) + 1
            for l in o.labels:
                state["labels"][l] = state["labels"].get(l, 0) + 1
            if o.nontrivial and o.key is not None:
                h = sha(o.key)
                if h not in state["keys"]:
                    state["keys"].add(h)
                    if len(state["nt_samples"]) < 3 and o.sample is not None:
                        state["nt_samples"].append(o.sample)
            if len(state["samples"]) < 2 and o.sample is not None and state["evals"] % 37 == 1:
                state["samples"].append(o.sample)

    use_hyp_shrink = getattr(mod, "HYPOTHESIS_SHRINK", False)
    phases = [Phase.generate, Phase.shrink] if use_hyp_shrink else [Phase.generate]

    @settings(max_examples=n, database=None, deadline=None, derandomize=False,
              suppress_health_check=list(HealthCheck), phases=phases,
              report_multiple_bugs=False, print_blob=False)
    @hseed(seed * 1000 + shard)
    @given(mod.strategy(hazards))
    def prop(case):
        try:
            o = mod.run_case(case, ctx)
        except _worker.Inconclusive as e:
            o = Outcome(discarded="inconclusive: " + str(e)[:60])
        counting = state["target"] is None
        record(case, o, counting)
        if o.failure is not None:
            if o.failure.sig in known_sigs:
                state["known_hits"][o.failure.sig] = state["known_hits"].get(o.failure.sig, 0) + 1
                return
            if state["target"] is None:
                state["target"] = o.failure.sig
            if o.failure.sig == state["target"]:
                state["last_fail"] = (case, o)
                raise AssertionError(o.failure.sig)

    t0 = time.time()
    err = None
    try:
        prop()
    except AssertionError:
        pass
    except BaseException as e:  # hypothesis internal errors, flaky, etc.
        import traceback
        err = traceback.format_exc()[-3000:]
    result = {"shard": shard, "evals": state["evals"], "runs": state["runs"], "keys": sorted(state["keys"]),
              "labels": state["labels"], "samples": state["nt_samples"] + state["samples"],
              "discard": state["discard"], "known_hits": state["known_hits"], "excluded": state["excluded"],
              "wall_s": time.time() - t0, "error": err, "failure": None,
              "restarts": sum(w.restarts for w in ctx.workers.values())}
    if state["last_fail"] is not None:
        case, o = state["last_fail"]
        if not use_hyp_shrink:
            from . import shrink as _shrink
            target = o.failure.sig
            holder = {"o": o}

            shrink_deadline = time.time() + float(os.environ.get("VERIF_SHRINK_SECONDS", "180"))

            def still_fails(cand):
                # shrinking is a courtesy with a time allowance of its own (a failure that makes every candidate run into
                # the watchdog would otherwise keep the shard busy for hours); what was found so far is reported
                if time.time() > shrink_deadline:
                    return False
                try:
                    oc = mod.run_case(cand, ctx)
                except Exception:
                    return False
                if oc.failure is not None and oc.failure.sig == target:
                    holder["o"] = oc
                    return True
                return False

            if hasattr(mod, "reexpress"):
                # let the check restate the failing case in a more shrinkable form (e.g. a seeded gc
                # schedule as the explicit list of allocation ordinals at which it collected)
                try:
                    alt = mod.reexpress(case, o)
                    if alt is not None and still_fails(alt):
                        case = alt
                except Exception:
                    pass
            if callable(getattr(mod, "shrink", None)):
                # the check knows which reductions keep the case inside its generator's guarantees
                case = mod.shrink(case, still_fails)
            else:
                case = _shrink.shrink(case, still_fails, getattr(mod, "SHRINK_BUDGET", 1500))
            o = holder["o"]
        result["failure"] = {"sig": o.failure.sig, "detail": o.failure.detail, "info": o.failure.info,
                             "case": enc(case)}
    ctx.close()
    with open(out_path, "w") as f:
        json.dump(result, f)


# --------------------------------------------------------------------------- main (parent)
def write_replay(pid, failure, tag="v"):
    d = os.path.join(VERIF, "replays", pid)
    os.makedirs(d, exist_ok=True)
    name = "%s-%s.json" % (tag, sha(failure["sig"] + json.dumps(failure["case"], sort_keys=True)))
    path = os.path.join(d, name)
    with open(path, "w") as f:
        json.dump({"property": pid, "sig": failure["sig"], "detail": failure["detail"], "info": failure["info"],
                   "case": failure["case"]}, f, indent=1, ensure_ascii=False)
    return path


def run_replays(mod, pid, ctx, known):
    """Replay tier: plain loop, no Hypothesis. Returns (violations, known_lines, count)."""
    d = os.path.join(VERIF, "replays", pid)
    violations = []
    known_lines = []
    count = 0
    kf = {}
    for f in known.for_property(pid):
        if f.get("replay"):
            kf.setdefault(os.path.normpath(os.path.join(VERIF, f["replay"])), []).append(f)
    if not os.path.isdir(d):
        return violations, known_lines, count
    for name in sorted(os.listdir(d)):
        if not name.endswith(".json"):
            continue
        path = os.path.join(d, name)
        rec = json.load(open(path))
        case = dec(rec["case"])
        try:
            o = mod.run_case(case, ctx)
        except _worker.Inconclusive:
            continue
        count += 1
        entries = kf.get(os.path.normpath(path), [])
        if o.failure is not None:
            match = [e for e in entries if e.get("sig") == o.failure.sig]
            if not match:
                # another saved input that fails with a listed signature is the same finding
                match = [e for e in known.for_property(pid) if e.get("sig") == o.failure.sig]
            if match:
                line = "KNOWN-FINDING: property=%s %s" % (pid, match[0]["text"])
                if line not in known_lines:
                    known_lines.append(line)
            else:
                violations.append((o.failure.sig, o.failure.detail, path))
        else:
            if entries:
                known_lines.append("NOTE: known finding %s no longer reproduces from %s" % (entries[0].get("sig"), name))
    return violations, known_lines, count


def _shard_limit():
    # the reference evaluator charges steps for data as well as for statements, this cap is the backstop: a shard that
    # still runs away gets a MemoryError (the case is discarded) instead of taking the machine down
    import resource
    resource.setrlimit(resource.RLIMIT_AS, (12 << 30, 12 << 30))


def main(argv):
    import argparse
    ap = argparse.ArgumentParser()
    ap.add_argument("property")
    ap.add_argument("--tier", default=os.environ.get("VERIF_TIER", "quick"))
    ap.add_argument("--replay", default=None)
    ap.add_argument("--cases", type=int, default=None)
    args = ap.parse_args(argv)
    pid = args.property.upper()
    tier = args.tier
    seed = int(os.environ.get("VERIF_SEED", "0") or 0)
    mod_name = pid.lower()
    t0 = time.time()
    try:
        mod = importlib.import_module("pbt.checks." + mod_name)
    except ImportError as e:
        print("no check for %s: %s" % (pid, e))
        return 2
    # 1. build what the check needs from /repo's current working tree
    try:
        for v in mod.VARIANTS:
            _build.build(v)
    except Exception as e:
        print("BUILD FAILED: %s" % e)
        return 2
    known = Known()
    ctx = Ctx(known.hazards(), tier, seed, strict=True)

    if args.replay:
        rec = json.load(open(args.replay))
        o = mod.run_case(dec(rec["case"]), ctx)
        ctx.close()
        if o.failure is not None:
            print("replay fails: %s\n%s" % (o.failure.sig, o.failure.detail))
            print("VIOLATION property=%s replay=%s" % (pid, args.replay))
            return 1
        print("replay passes")
        return 0

    violations = []  # (sig, detail, replay path)
    # 2. replay tier
    rv, known_lines, n_replayed = run_replays(mod, pid, ctx, known)
    violations.extend(rv)
    # 3. deterministic extras
    extra_out = []
    if hasattr(mod, "extra"):
        extra_out = mod.extra(tier, ctx) or []
    ctx.close()

    total = {"evals": 0, "runs": 0, "keys": set(), "labels": {}, "samples": [], "discard": {}, "known_hits": {},
             "excluded": {}, "restarts": 0}
    known_sigs = known.sigs()
    for o in extra_out:
        total["evals"] += 1
        total["runs"] += o.runs
        for l in o.labels:
            total["labels"][l] = total["labels"].get(l, 0) + 1
        if o.nontrivial and o.key is not None:
            total["keys"].add(sha(o.key))
        if o.sample is not None and len(total["samples"]) < 2:
            total["samples"].append(o.sample)
        if o.failure is not None:
            if o.failure.sig in known_sigs:
                total["known_hits"][o.failure.sig] = total["known_hits"].get(o.failure.sig, 0) + 1
            else:
                f = {"sig": o.failure.sig, "detail": o.failure.detail, "info": o.failure.info,
                     "case": o.failure.info.get("case")}
                path = write_replay(pid, f)
                violations.append((o.failure.sig, o.failure.detail, path))

    # 4. sharded search
    n_total = args.cases if args.cases is not None else mod.cases(tier)
    errors = []
    if n_total > 0:
        shards = min(N_SHARDS, max(1, n_total // 20))
        per = (n_total + shards - 1) // shards
        outdir = os.path.join(VERIF, "out", "%s-%d" % (pid, os.getpid()))
        os.makedirs(outdir, exist_ok=True)
        procs = []
        for s in range(shards):
            out_path = os.path.join(outdir, "shard%d.json" % s)
            cmd = [sys.executable, "-m", "pbt.runner", "shard", mod_name, str(s), str(per), str(seed), tier, out_path]
            procs.append((s, out_path, subprocess.Popen(cmd, cwd=VERIF, stdout=subprocess.DEVNULL,
                                                        stderr=subprocess.PIPE, preexec_fn=_shard_limit)))
        for s, out_path, p in procs:
            _, err = p.communicate()
            if not os.path.exists(out_path):
                errors.append("shard %d produced no result (exit %s): %s" % (s, p.returncode,
                                                                              err.decode("utf-8", "replace")[-1500:]))
                continue
            r = json.load(open(out_path))
            os.remove(out_path)
            total["evals"] += r["evals"]
            total["runs"] += r["runs"]
            total["keys"].update(r["keys"])
            total["restarts"] += r.get("restarts", 0)
            for k in ("labels", "discard", "known_hits", "excluded"):
                for a, b in r[k].items():
                    total[k][a] = total[k].get(a, 0) + b
            for smp in r["samples"]:
                if len(total["samples"]) < 5:
                    total["samples"].append(smp)
            if r["error"]:
                errors.append("shard %d: %s" % (s, r["error"]))
            if r["failure"] is not None:
                path = write_replay(pid, r["failure"])
                violations.append((r["failure"]["sig"], r["failure"]["detail"], path))
        try:
            os.rmdir(outdir)
        except OSError:
            pass

    # 5. report
    wall = time.time() - t0
    # de-duplicate violations by signature (one replay each)
    seen = {}
    for sig, detail, path in violations:
        seen.setdefault(sig, (detail, path))
    gate_fail = []
    gates = getattr(mod, "GATES", {})
    for label, frac in gates.items():
        have = total["labels"].get(label, 0)
        if total["evals"] > 0 and have < frac * total["evals"]:
            gate_fail.append("label %s: %d of %d cases (< %.0f%%)" % (label, have, total["evals"], frac * 100))
    coverage = {
        "evaluations": total["evals"],
        "vm_executions": total["runs"],
        "distinct_nontrivial": len(total["keys"]),
        "rule": mod.RULE,
        "samples": total["samples"] or ["(no sample)"],
        "labels": dict(sorted(total["labels"].items(), key=lambda kv: -kv[1])),
        "discarded": total["discard"],
        "excluded_by_hazard": total["excluded"],
        "hazards_active": sorted(known.hazards()),
        "known_finding_hits": total["known_hits"],
        "replays_run": n_replayed,
        "worker_variants": list(mod.VARIANTS),
        "worker_restarts": total["restarts"],
        "shard_errors": errors[:3],
        "gate_failures": gate_fail,
    }
    if hasattr(mod, "coverage_extra"):
        coverage.update(mod.coverage_extra(tier))
    evidence = {"property_id": pid, "tier": tier if tier in ("quick", "thorough") else "quick", "seed": seed,
                "level": mod.LEVEL, "coverage": coverage, "assumptions": list(mod.ASSUMPTIONS), "wall_s": wall,
                "violations": len(seen)}
    if args.cases is None:
        os.makedirs(os.path.join(VERIF, "evidence"), exist_ok=True)
        with open(os.path.join(VERIF, "evidence", pid + ".json"), "w") as f:
            json.dump(evidence, f, indent=1, ensure_ascii=False)
    else:
        # an ad hoc amount of work (--cases): not the registered tier, the evidence file is left alone
        print("(--cases %d: evidence/%s.json not rewritten)" % (args.cases, pid))
    for line in known_lines:
        print(line)
    print("%s %s: %d cases, %d distinct non-trivial, %d vm runs, %.1fs" %
          (pid, tier, total["evals"], len(total["keys"]), total["runs"], wall))
    if seen:
        for sig, (detail, path) in seen.items():
            print("violation signature: %s" % sig)
            print(detail[:2000])
            print("VIOLATION property=%s replay=%s" % (pid, path))
        return 1
    if errors:
        print("INCONCLUSIVE: shard errors:\n" + "\n".join(errors[:3]))
        return 2
    if gate_fail:
        print("INCONCLUSIVE: generator sanity gate: " + "; ".join(gate_fail))
        return 2
    return 0


if __name__ == "__main__":
    if len(sys.argv) > 1 and sys.argv[1] == "shard":
        shard_main(sys.argv[2:])
    else:
        sys.exit(main(sys.argv[1:]))
