#!/usr/bin/env python3
"""Hand written regression cases for repaired defects, emitted as replay files (plain AST cases)."""
import json
import os
import sys

VERIF = os.path.dirname(os.path.dirname(os.path.abspath(__file__)))
sys.path.insert(0, VERIF)
from pbt.runner import enc  # noqa: E402

N = lambda x: ("num", float(x))  # noqa: E731
V = lambda n: ("var", n)  # noqa: E731
S = lambda s: ("str", s)  # noqa: E731
ERR = lambda m, cls="Error": ("call", V(cls), [S(m)])  # noqa: E731


def call(f, *args):
    return ("call", V(f) if isinstance(f, str) else f, list(args))


CASES = {
    # property, name, commit : program (as the case the check's strategy produces)
    ("C04", "params-in-handler-depth", "1d3bf74"):
        [("fn", "f", ["a", "b"], [("try", [("raise", ERR("x"))], [("e", "Error", [])]), ("print", V("a")), ("print", V("b"))]),
         ("expr", call("f", N(1), N(2)))],
    ("C04", "ternary-before-try", "a5389bc"):
        [("fn", "f", [], [("let", "x", ("tern", ("true",), N(1), N(2))), ("try", [("raise", ERR("x"))], [("e", "Error", [])]),
                          ("let", "y", N(5)), ("print", V("y")), ("print", V("x"))]),
         ("expr", call("f"))],
    ("C04", "return-from-nested-try", "e2c5fa8"):
        [("fn", "f", [], [("try", [("try", [("return", N(1))], [("a", "Error", [])])], [("b", "Error", [])])]),
         ("print", call("f")),
         ("try", [("raise", ERR("later"))], [("e", None, [("print", ("prop", V("e"), "message"))])]),
         ("fn", "g", [], [("raise", ERR("g"))]),
         ("expr", call("g"))],
    ("C04", "break-from-nested-try", "e2c5fa8"):
        [("fn", "f", [], [("let", "c", N(0)), ("while", ("bin", "<", V("c"), N(2)), [
            ("expr", ("opassign", "+", V("c"), N(1))),
            ("try", [("try", [("if", ("bin", "==", V("c"), N(1)), [("continue",)], [("break",)])], [("a", "Error", [])])],
             [("b", "Error", [])])]), ("return", V("c"))]),
         ("print", call("f")),
         ("try", [("raise", ERR("later"))], [("e", None, [("print", ("prop", V("e"), "message"))])])],
    ("C04", "catch-around-stackless-native-callback", "db109b5"):
        [("fn", "r1", [], [("raise", ERR("r1"))]),
         ("try", [("expr", ("call", ("prop", ("call", ("prop", ("call", ("prop", ("list", [N(1), N(2)]), "iter"), []), "map"),
                                              [("lambda", ["x"], ("expr", call("r1")))]), "list"), []))],
          [("e", None, [("print", S("caught"))])]),
         ("print", S("end"))],
    ("C04", "vm-raised-error-clobbers-local", "23480e5"):
        [("fn", "f", [], [("let", "a", N(1)), ("let", "b", ("bin", "+", V("a"), N(1))),
                          ("try", [("expr", ("bin", "+", ("nil",), N(1)))], [("e", None, [])]),
                          ("print", V("b")), ("print", V("a"))]),
         ("expr", call("f")),
         ("let", "c", N(0)),
         ("while", ("bin", "<", V("c"), N(2)), [("expr", ("opassign", "+", V("c"), N(1))), ("let", "n", N(9)),
                                                ("let", "m", V("n")), ("try", [("expr", ("un", "-", ("nil",)))], [("e", None, [])]),
                                                ("print", V("m"))])],
}

CASES[("C03", "undefined-property-read-class", "d073103")] = [
    ("class", "K", None, None, [], []),
    ("let", "o", call("K")),
    ("try", [("print", ("prop", V("o"), "zz"))], [("e", "PropertyError", [("print", S("pe read"))])]),
    ("try", [("print", ("call", ("prop", V("o"), "zz"), [N(1)]))], [("e", "PropertyError", [("print", S("pe call"))])]),
    ("try", [("print", ("call", ("prop", V("o"), "zz"), []))], [("e", "PropertyError", [("print", S("pe invoke"))])]),
]

C01_CASES = {
    ("C01", "break-with-live-locals", "a5389bc"):
        [("fn", "f", [], [("let", "c", N(0)), ("while", ("bin", "<", V("c"), N(3)), [
            ("expr", ("opassign", "+", V("c"), N(1))), ("let", "a", N(1)), ("let", "b", N(2)), ("let", "d", N(3)),
            ("let", "e", N(4)), ("let", "g", N(5)), ("let", "h", N(6)),
            ("if", ("bin", "==", V("c"), N(2)), [("break",)], None), ("print", ("bin", "+", V("a"), V("h")))]),
            ("return", V("c"))]),
         ("print", call("f"))],
}


C06_CASES = {
    ("C06", "send-then-try", "dcdff3a"):
        [("fn", "g", [], [("raise", ERR("x"))]),
         ("fn", "f", ["ch"], [("expr", ("send", V("ch"), N(1))),
                              ("try", [("expr", call("g"))], [("e", "Error", [("print", ("prop", V("e"), "message"))])])]),
         ("expr", call("f", ("chan", N(4))))],
    ("C06", "launch-native", "8bc6f5a"):
        [("fn", "f", [], [("launch", call("print", S("hi"))), ("let", "y", N(5)), ("print", V("y"))]),
         ("expr", call("f"))],
    ("C06", "break-with-live-locals", "a5389bc"): list(C01_CASES.values())[0],
    ("C06", "params-in-handler-depth", "1d3bf74"): CASES[("C04", "params-in-handler-depth", "1d3bf74")],
    ("C06", "return-from-nested-try", "e2c5fa8"): CASES[("C04", "return-from-nested-try", "e2c5fa8")],
    ("C06", "break-from-nested-try", "e2c5fa8"): CASES[("C04", "break-from-nested-try", "e2c5fa8")],
}


C14_CASES = {
    ("C14", "undefined-module-variable", "51a972c"):
        [("try", [("print", V("later"))], [("e", None, [("print", ("call", ("prop", ("call", ("prop", V("e"), "cls"), []), "name"), []))])]),
         ("let", "later", N(1)), ("print", V("later"))],
    ("C14", "zero-keys", "00451eb"):
        [("let", "a", ("un", "-", N(0))), ("let", "b", N(0)), ("print", ("bin", "==", V("a"), V("b"))),
         ("let", "m", ("map", [])), ("expr", ("assign", ("index", V("m"), V("a")), N(1))),
         ("print", ("call", ("prop", V("m"), "has"), [V("b")])), ("print", ("index", V("m"), V("b"))),
         ("print", ("call", ("prop", ("list", [V("a")]), "has"), [V("b")]))],
}

TEXT_CASES = {
    ("C15", "loop-depth-underflow-fn-signature", "bd16179"): "while true { fn f() }",
    ("C15", "loop-depth-underflow-method-signature", "bd16179"): "let i=0; while i < 3 { class B { bar() let { 1 } } }",
    ("C15", "both-if-arms-exit-with-locals", "be35216"): "let c1 = 0;\nwhile nil {\n  if c1 {\n  } else {\n    let c2 = 0;\n    let v6 = 9;\n    if c2 { continue; } else { continue; }\n  }\n}\nfn f(a) { let p = 1; let q = 2; if a { return p; } else { return q; } }\nprint(f(true));",
    ("C15", "for-iterable-lambda-names-loop-variable", "b5a9269"): "fn f() { let x = [1, 2, 3]; for x in (|| x)() { print(x); } } f();",
    ("C15", "lambda-continue-in-loop", "de28c2e"): "for i in [1] { let f = || { continue; }; }",
    ("C15", "lambda-break-in-loop", "de28c2e"): "while true { let f = || { break; }; break; }",
    ("C15", "call-with-254-args", "48393ed"): "fn f(" + ", ".join("p%d" % i for i in range(254)) + ") { return p0; }\nprint(f(" + ", ".join("1" for _ in range(254)) + "));",
    ("C15", "jump-targets-70000", "7d5b0d8"): "let x = 0;\n" + "if x == 1 { x = 2; } " * 70000 + "\nprint(x);",
    ("C15", "file-starts-with-slash-x-slash", "54300ca"): "/x/ not a program (((\nprint(\"second line\");",
    ("C15", "file-starts-with-slash-blank-slash", "54300ca"): "/ /\nprint(\"second line\");",
    ("C15", "locals-255-plus-drop", "b00da9f"): "fn f() {\nif true {\n" + "".join("let a%d = %d;\n" % (i, i) for i in range(255)) + "1;\n}\nreturn 7;\n}\nprint(f());",
}


C11_CASES = {
    ("C11", "sort-comparator-raises", "819016f"):
        [("try", [("print", ("call", ("prop", ("list", [N(3), N(1), N(2)]), "sort"),
                             [("lambda", ["a", "b"], ("block", [("raise", ERR("cmp"))]))]))],
          [("e", None, [("print", ("prop", V("e"), "message"))])]),
         ("print", S("end"))],
}


def _guard(e):
    return ("try", [("print", e)], [("e", None, [("print", ("call", ("prop", ("call", ("prop", V("e"), "cls"), []), "name"), []))])])


C11_CASES.update({
    ("C11", "take-negative-count", "3aabdb3"):
        [("let", "l", ("list", [N(1), N(2), N(3)])),
         _guard(("call", ("prop", ("call", ("prop", ("call", ("prop", V("l"), "iter"), []), "take"), [("un", "-", N(5))]), "list"), []))],
    ("C11", "remove-insert-fractional-index", "a490f6b"):
        [("let", "l", ("list", [N(1), N(2), N(3), N(4)])),
         _guard(("call", ("prop", V("l"), "remove"), [N(1.5)])), ("print", V("l")),
         _guard(("call", ("prop", V("l"), "insert"), [N(1.5), N(9)])), ("print", V("l")),
         _guard(("call", ("prop", V("l"), "remove"), [("bin", "/", N(0), N(0))])), ("print", V("l")),
         _guard(("call", ("prop", V("l"), "insert"), [("bin", "/", N(0), N(0)), N(7)])), ("print", V("l"))],
    ("C11", "map-literal-duplicate-key", "38a5f36"):
        [("let", "m", ("map", [(S("a"), N(1)), (S("a"), N(2)), (N(3), N(5)), (N(3), ("true",))])),
         ("print", ("index", V("m"), S("a"))), ("print", ("index", V("m"), N(3))), ("print", ("call", ("prop", V("m"), "len"), []))],
    ("C11", "map-written-while-iterated", "7cd1e01"):
        [("let", "m", ("map", [(("nil",), N(2)), (("false",), N(2)), (N(0.5), ("nil",))])),
         ("let", "cnt", N(0)),
         ("for", "kv", V("m"), [("expr", ("assign", V("cnt"), ("bin", "+", V("cnt"), N(1)))),
                                ("expr", ("assign", ("index", V("m"), ("index", V("kv"), N(0))), N(7))),
                                ("for", "j", ("call", ("prop", N(40), "times"), []),
                                 [("expr", ("assign", ("index", V("m"), ("interp", ["n", V("cnt"), "_", V("j")])), N(1)))])]),
         ("print", V("cnt")), ("print", ("call", ("prop", V("m"), "len"), []))],
})


C02_CASES = {
    ("C02", "for-iterable-lambda-names-loop-variable", "b5a9269"):
        [("fn", "f", [], [("let", "x", ("list", [N(1), N(2), N(3)])),
                          ("for", "x", ("call", ("group", ("lambda", [], ("expr", V("x")))), []), [("print", V("x"))]),
                          ("print", V("x"))]),
         ("expr", call("f"))],
    ("C02", "closure-before-shadowing-let-sees-outer", "b5a9269"):
        [("let", "m", N(7)),
         ("fn", "mk", [], [("let", "g", ("lambda", [], ("expr", V("m")))), ("let", "m", N(0)), ("return", ("list", [V("g")]))]),
         ("print", ("call", ("index", call("mk"), N(0)), []))],
}


def main():
    for (pid, name, commit), prog in C02_CASES.items():
        write(pid, name, commit, (prog, 0, []))
    for (pid, name, commit), prog in C11_CASES.items():
        write(pid, name, commit, (tuple([("kind", "list")] + prog), 0))
    for (pid, name, commit), prog in C14_CASES.items():
        write(pid, name, commit, (("gen", "regression", prog), 0))
        write(pid, name + "-rel", commit, (("gen", "regression", prog), 1))
    for (pid, name, commit), text in TEXT_CASES.items():
        write(pid, name, commit, ("text", text))
    for (pid, name, commit), prog in C06_CASES.items():
        write(pid, name, commit, ("regression", prog))
    for (pid, name, commit), prog in list(CASES.items()):
        write(pid, name, commit, prog)
    for (pid, name, commit), prog in C01_CASES.items():
        write(pid, name, commit, (prog, [0, 1, 2, 3], [0, 1, 0, 1]))


def write(pid, name, commit, case):
    d = os.path.join(VERIF, "replays", pid)
    os.makedirs(d, exist_ok=True)
    path = os.path.join(d, "fixed-%s-%s.json" % (commit, name))
    json.dump({"property": pid, "sig": "regression/" + name, "detail": "regression case for fix " + commit,
               "info": {}, "case": enc(case)}, open(path, "w"), indent=1)
    print(path)


if __name__ == "__main__":
    main()
