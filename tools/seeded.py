#!/usr/bin/env python3
"""Run checks against a seeded change.

  tools/seeded.py run <patch> [IDs...]     apply <patch> in a scratch worktree of /repo (never /repo itself), run the
                                           quick tier of the given checks (default: all) with VERIF_REPO pointing at it,
                                           print which checks report a violation, clean up replays written meanwhile.
  tools/seeded.py all                      run every /verif/seeded/<name>/patch.diff against the checks its meta.json
                                           names (property + 'also'), and write seeded/RESULTS.md
"""
import glob
import json
import os
import subprocess
import sys
import time

VERIF = os.path.dirname(os.path.dirname(os.path.abspath(__file__)))
SCRATCH = os.environ.get("SEEDED_SCRATCH", "/tmp/seeded-wt")
ALL = ["C%02d" % i for i in range(1, 21)]


def sh(cmd, **kw):
    return subprocess.run(cmd, shell=True, text=True, capture_output=True, **kw)


def prepare(patch):
    if not os.path.isdir(SCRATCH):
        r = sh("git -C /repo worktree add -q --detach %s HEAD" % SCRATCH)
        if r.returncode != 0:
            raise SystemExit("worktree: " + r.stderr)
    head = sh("git -C /repo rev-parse HEAD").stdout.strip()
    sh("git -C %s checkout -q -- . && git -C %s clean -fdq -e target && git -C %s checkout -q --detach %s" %
       (SCRATCH, SCRATCH, SCRATCH, head))
    r = sh("git -C %s apply %s" % (SCRATCH, os.path.abspath(patch)))
    if r.returncode != 0:
        # the tree moved on since the change was written (later fix: commits): let patch(1) place the hunks
        r = sh("cd %s && patch -p1 --no-backup-if-mismatch -F3 < %s" % (SCRATCH, os.path.abspath(patch)))
        if r.returncode != 0:
            raise SystemExit("patch does not apply: " + r.stdout + r.stderr)


def run_checks(ids, tier="quick", seed="0"):
    before = set(glob.glob(os.path.join(VERIF, "replays", "*", "v-*.json")))
    evid = {f: open(f).read() for f in glob.glob(os.path.join(VERIF, "evidence", "*.json"))}
    out = {}
    env = dict(os.environ, VERIF_REPO=SCRATCH, VERIF_SEED=seed, VERIF_TIER=tier)
    for pid in ids:
        t0 = time.time()
        r = subprocess.run([os.path.join(VERIF, "check"), pid, "--tier", tier], env=env, text=True, capture_output=True,
                           cwd=VERIF)
        sigs = [l.split(": ", 1)[1] for l in r.stdout.splitlines() if l.startswith("violation signature: ")]
        out[pid] = {"exit": r.returncode, "signatures": sigs[:6], "wall_s": round(time.time() - t0, 1),
                    "tail": r.stdout[-400:] if r.returncode == 2 else ""}
    # remove what the experiment wrote: replays of the mutated tree and its evidence
    for f in set(glob.glob(os.path.join(VERIF, "replays", "*", "v-*.json"))) - before:
        os.remove(f)
    for f, text in evid.items():
        open(f, "w").write(text)
    return out


def cleanup():
    sh("git -C /repo worktree remove --force %s" % SCRATCH)
    sh("rm -rf %s/target/alt-* %s/build/alt-*" % (VERIF, VERIF))


def main(argv):
    if argv[0] == "run":
        ids = [a.upper() for a in argv[2:]] or ALL
        prepare(argv[1])
        res = run_checks(ids)
        for pid, r in res.items():
            print(pid, "exit", r["exit"], r["wall_s"], "s", "; ".join(r["signatures"])[:300], r["tail"].replace("\n", " | ")[:300])
        if os.environ.get("SEEDED_KEEP") != "1":
            cleanup()
        return 0
    if argv[0] == "all":
        rows = []
        for meta_path in sorted(glob.glob(os.path.join(VERIF, "seeded", "*", "meta.json"))):
            d = os.path.dirname(meta_path)
            meta = json.load(open(meta_path))
            ids = [meta["property"]] + list(meta.get("also", []))
            if meta.get("status") == "superseded":
                continue  # a later fix: rewrote the code the change touched (see the entry's note)
            if len(argv) > 1 and os.path.basename(d) not in argv[1:]:
                continue
            try:
                prepare(os.path.join(d, "patch.diff"))
            except SystemExit as e:
                # the tree moved on under the change (a later fix: rewrote the lines it touches)
                res = {ids[0]: {"exit": -1, "signatures": ["patch does not apply to the current tree: " + str(e)[:80]], "wall_s": 0, "tail": ""}}
                rows.append((os.path.basename(d), meta, res))
                print(os.path.basename(d), "patch does not apply")
                continue
            # the checks the entry says catch it go first; the run of an entry stops at the first check that reports it
            import re as _re
            first = [c for c in _re.findall(r"C\d\d", meta.get("caught_by") or "") if c in ALL]
            order = first + [c for c in ids if c not in first]
            res = {}
            for pid in order:
                res.update(run_checks([pid]))
                if res[pid]["exit"] == 1:
                    break
            rows.append((os.path.basename(d), meta, res))
            print(os.path.basename(d), {k: v["exit"] for k, v in res.items()}, flush=True)
            write_results(rows)
        cleanup()
        write_results(rows)
        return 0
    print(__doc__)
    return 2


def write_results(rows):
    if True:
        with open(os.path.join(VERIF, "seeded", "RESULTS.md"), "w") as f:
            f.write("# Seeded changes vs checks (quick tier, VERIF_SEED=0)\n\n| change | breaks | check -> exit (1 = caught) | first signature |\n|---|---|---|---|\n")
            for name, meta, res in rows:
                f.write("| %s | %s | %s | %s |\n" % (
                    name, meta["property"], ", ".join("%s -> %d" % (k, v["exit"]) for k, v in res.items()),
                    next((v["signatures"][0] for v in res.values() if v["signatures"]), "-")[:160].replace("|", "/")))


if __name__ == "__main__":
    sys.exit(main(sys.argv[1:]))
