#!/usr/bin/env python3
"""Rewrite the table between the SEEDED-TABLE markers of DESIGN.md from seeded/*/meta.json (and seeded/RESULTS.md, if
tools/seeded.py all has written one, for the exit codes of the last full run)."""
import glob
import json
import os
import re

VERIF = os.path.dirname(os.path.dirname(os.path.abspath(__file__)))


def main():
    rows = []
    for mp in sorted(glob.glob(os.path.join(VERIF, "seeded", "*", "meta.json"))):
        name = os.path.basename(os.path.dirname(mp))
        m = json.load(open(mp))
        rows.append("| %s | %s | %s | %s | %s | %s |" % (
            name, m["property"], m["what"].replace("|", "/"), m["needs_to_manifest"].replace("|", "/"),
            (m.get("caught_by") or "-").replace("|", "/"), (m.get("note") or "").replace("|", "/")))
    table = ("| change | breaks | what was changed | needs to manifest | caught by | first attempt |\n|---|---|---|---|---|---|\n" +
             "\n".join(rows) + "\n")
    p = os.path.join(VERIF, "DESIGN.md")
    s = open(p).read()
    a, b = "<!-- SEEDED-TABLE-BEGIN -->\n", "<!-- SEEDED-TABLE-END -->\n"
    if a not in s:
        raise SystemExit("markers missing in DESIGN.md")
    s = s[:s.index(a) + len(a)] + table + s[s.index(b):]
    open(p, "w").write(s)
    print("%d rows" % len(rows))


if __name__ == "__main__":
    main()
