//! `lyworker`: batch RPC server that runs Laythe programs in fresh vms.
//! See /verif/DESIGN.md section 1.1.
mod alloc;
mod capio;
mod memfs;
mod proto;
mod verifier;

use laythe_env::{env::IoEnvTest, io::Io};
use laythe_vm::{
  verif::{self, GcSchedule, Sym},
  vm::{Vm, VmExit},
};
use proto::{Json, Reader};
use std::{
  collections::HashMap,
  io::Write,
  panic::{self, AssertUnwindSafe},
  path::PathBuf,
  sync::{atomic::Ordering, Arc, Mutex},
};

#[global_allocator]
static GLOBAL: alloc::VerifAlloc = alloc::VerifAlloc;

static PANIC_INFO: Mutex<Option<String>> = Mutex::new(None);

const STACK_SIZE: usize = 8 << 20;

struct Request {
  mode: u8,
  files: Vec<(String, String)>,
  main: String,
  lines: Vec<String>,
  schedule: GcSchedule,
  force_full: bool,
  caches_disabled: bool,
  peephole_mask: u32,
  budget: u64,
  alloc_mode: u8,
  syms: Vec<Sym>,
  sym_lines: Vec<u16>,
  stdin: String,
}

fn decode(buf: &[u8]) -> Request {
  let mut r = Reader::new(buf);
  let mode = r.u8();
  let n_files = r.u32();
  let mut files = vec![];
  for _ in 0..n_files {
    let path = r.string();
    let text = r.string();
    files.push((path, text));
  }
  let main = r.string();
  let n_lines = r.u32();
  let lines = (0..n_lines).map(|_| r.string()).collect();
  let kind = r.u8();
  let a = r.u64();
  let b = r.u64();
  let n_idx = r.u32();
  let indices: Vec<u64> = (0..n_idx).map(|_| r.u64()).collect();
  let schedule = match kind {
    0 => GcSchedule::Natural,
    1 => GcSchedule::Never,
    2 => GcSchedule::EveryAlloc,
    3 => GcSchedule::EveryKth(a),
    4 => GcSchedule::Seeded {
      seed: a,
      permille: b as u32,
    },
    5 => GcSchedule::AtIndices(indices),
    6 => GcSchedule::Bytes(a as usize),
    _ => GcSchedule::Natural,
  };
  let force_full = r.u8() != 0;
  let caches_disabled = r.u8() != 0;
  let peephole_mask = r.u32();
  let budget = r.u64();
  let alloc_mode = r.u8();
  let n_syms = r.u32();
  let mut syms = vec![];
  let mut sym_lines = vec![];
  for _ in 0..n_syms {
    let name = r.string();
    let a = r.u32();
    let b = r.u32();
    let line = r.u16();
    syms.push(Sym { name, a, b });
    sym_lines.push(line);
  }
  let stdin = if r.at_end() { String::new() } else { r.string() };
  Request {
    mode,
    files,
    main,
    lines,
    schedule,
    force_full,
    caches_disabled,
    peephole_mask,
    budget,
    alloc_mode,
    syms,
    sym_lines,
    stdin,
  }
}

fn make_io(req: &Request) -> (Io, Arc<capio::Shared>) {
  let shared = Arc::new(capio::Shared {
    stdout: Default::default(),
    stderr: Default::default(),
    lines: req.lines.clone(),
    line_index: Mutex::new(0),
    stdin: req.stdin.as_bytes().to_vec(),
  });
  let stdio = Arc::new(capio::IoCapture {
    shared: Arc::clone(&shared),
  });
  let mut files = HashMap::new();
  for (path, text) in &req.files {
    files.insert(PathBuf::from(path), text.clone());
  }
  let fs = Arc::new(memfs::IoMemFs::new(files));
  let env = Arc::new(IoEnvTest::new(PathBuf::from("/v"), vec![]));
  let io = Io::default().with_stdio(stdio).with_fs(fs).with_env(env);
  (io, shared)
}

fn heap_json(j: &mut Json, label: &str, s: &verif::HeapStats) {
  j.begin_obj();
  j.kv_str("at", label);
  j.kv_arr_begin("kind_counts");
  for c in s.kind_counts.iter() {
    j.el_num(*c);
  }
  j.end_arr();
  j.kv_num("nursery_objects", s.nursery_objects);
  j.kv_num("old_objects", s.old_objects);
  j.kv_num("other_objects", s.other_objects);
  j.kv_num("recomputed_bytes", s.recomputed_bytes);
  j.kv_num("bytes_allocated", s.bytes_allocated);
  j.kv_num("next_gc", s.next_gc);
  j.kv_num("gc_count", s.gc_count);
  j.kv_num("intern_len", s.intern_len);
  j.kv_num("intern_mismatch", s.intern_mismatch);
  j.kv_num("intern_dangling", s.intern_dangling);
  j.kv_num("strings", s.strings);
  j.kv_num("temp_roots", s.temp_roots);
  j.kv_num("harness_live_bytes", alloc::THREAD_LIVE_BYTES.with(|c| c.get()));
  j.kv_num("harness_live_blocks", alloc::THREAD_LIVE_BLOCKS.with(|c| c.get()));
  j.end_obj();
}

fn dump_json(j: &mut Json, dump: &verif::CompileDump) {
  j.kv_obj_begin("dump");
  j.kv_num("property_slots", dump.property_slots);
  j.kv_num("invoke_slots", dump.invoke_slots);
  j.kv_arr_begin("funs");
  for f in &dump.funs {
    j.begin_obj();
    j.kv_str("name", &f.name);
    j.kv_num("arity_kind", f.arity_kind);
    j.kv_num("arity_min", f.arity_min);
    j.kv_num("arity_max", f.arity_max);
    j.kv_num("parameter_count", f.parameter_count);
    j.kv_num("max_slots", f.max_slots);
    j.kv_num("capture_count", f.capture_count);
    j.kv_num("module_id", f.module_id);
    j.kv_arr_begin("code");
    for b in &f.code {
      j.el_num(*b);
    }
    j.end_arr();
    j.kv_arr_begin("lines");
    for b in &f.lines {
      j.el_num(*b);
    }
    j.end_arr();
    j.kv_arr_begin("constants");
    for c in &f.constants {
      j.begin_obj();
      match c {
        verif::ConstDump::Nil => j.kv_str("k", "nil"),
        verif::ConstDump::Bool(b) => {
          j.kv_str("k", "bool");
          j.kv_bool("v", *b)
        },
        verif::ConstDump::Num(n) => {
          j.kv_str("k", "num");
          j.kv_f64("v", *n)
        },
        verif::ConstDump::Str(s) => {
          j.kv_str("k", "str");
          j.kv_str("v", s)
        },
        verif::ConstDump::Fun(i) => {
          j.kv_str("k", "fun");
          j.kv_num("v", *i)
        },
        verif::ConstDump::Other(s) => {
          j.kv_str("k", "other");
          j.kv_str("v", s)
        },
      }
      j.end_obj();
    }
    j.end_arr();
    j.end_obj();
  }
  j.end_arr();
  j.end_obj();
}

/// Executes one request on the current (fresh) thread and produces the JSON response
fn handle(req: &Request) -> String {
  verif::set_gc_schedule(req.schedule.clone(), req.force_full);
  verif::set_caches_disabled(req.caches_disabled);
  verif::set_peephole_disabled_mask(req.peephole_mask);
  verif::set_instruction_budget(if req.budget == 0 { u64::MAX } else { req.budget });
  alloc::QUARANTINE_CAP.store(
    if req.alloc_mode == 1 { 0 } else { 64 << 20 },
    Ordering::Relaxed,
  );
  *PANIC_INFO.lock().unwrap() = None;

  let mut j = Json::new();
  j.begin_obj();

  if req.mode == 3 {
    // peephole on a symbolic sequence
    let result = panic::catch_unwind(AssertUnwindSafe(|| {
      verif::peephole(&req.syms, req.sym_lines.clone())
    }));
    match result {
      Ok(Ok((syms, lines))) => {
        j.kv_str("outcome", "ok");
        j.kv_arr_begin("syms");
        for (s, l) in syms.iter().zip(lines.iter()) {
          j.begin_arr();
          j.el_str(&s.name);
          j.el_num(s.a);
          j.el_num(s.b);
          j.el_num(*l);
          j.end_arr();
        }
        j.end_arr();
        j.kv_num("n_syms", syms.len());
        j.kv_num("n_lines", lines.len());
      },
      Ok(Err(msg)) => {
        j.kv_str("outcome", "bad_request");
        j.kv_str("panic", &msg);
      },
      Err(_) => {
        j.kv_str("outcome", "panic");
        let info = PANIC_INFO.lock().unwrap().clone().unwrap_or_default();
        j.kv_str("panic", &info);
      },
    }
    j.end_obj();
    return j.out;
  }

  if req.mode == 5 {
    j.kv_str("outcome", "ok");
    j.kv_arr_begin("byte_codes");
    for (name, byte) in verif::byte_code_table() {
      j.begin_arr();
      j.el_str(&name);
      j.el_num(byte);
      j.end_arr();
    }
    j.end_arr();
    j.kv_bool("debug_assertions", cfg!(debug_assertions));
    j.kv_bool("nan_boxing", cfg!(feature = "nan"));
    j.end_obj();
    return j.out;
  }

  let (io, container) = make_io(req);
  let source = req
    .files
    .iter()
    .find(|(p, _)| *p == req.main)
    .map(|(_, t)| t.clone())
    .unwrap_or_default();

  let vm_ptr: *mut Vm = Box::into_raw(Box::new(Vm::new(io)));
  let mut heap_snapshots: Vec<(String, verif::HeapStats)> = vec![];
  // gc counters at the end of the program, before the collections mode 4 forces afterwards
  let mut run_end: Option<(u64, u64, u64)> = None;
  let mut dump: Option<verif::CompileDump> = None;
  let mut verify_report: Option<verifier::Report> = None;

  let result = panic::catch_unwind(AssertUnwindSafe(|| {
    let vm = unsafe { &mut *vm_ptr };
    match req.mode {
      0 => vm.run(PathBuf::from(&req.main), &source),
      1 => vm.repl(),
      2 => {
        let d = vm.verif_compile_dump(PathBuf::from(&req.main), &source, false);
        let r = if d.is_some() {
          (0, VmExit::Ok)
        } else {
          (1, VmExit::CompileError)
        };
        if let Some(d) = &d {
          verify_report = Some(verifier::verify(d));
        }
        dump = d;
        r
      },
      4 => {
        let r = vm.run(PathBuf::from(&req.main), &source);
        verif::set_gc_disabled(true);
        let c = verif::gc_counters();
        run_end = Some((c.allocations, c.freeing_collections, c.last_freeing_ordinal));
        heap_snapshots.push(("after_run".to_string(), vm.verif_stats()));
        vm.verif_collect();
        heap_snapshots.push(("after_natural_collect".to_string(), vm.verif_stats()));
        vm.verif_full_collect();
        heap_snapshots.push(("after_full_collect".to_string(), vm.verif_stats()));
        vm.verif_full_collect();
        heap_snapshots.push(("after_second_full_collect".to_string(), vm.verif_stats()));
        r
      },
      _ => (0, VmExit::Ok),
    }
  }));

  let instr = verif::instructions_executed();
  let counters = verif::gc_counters();
  verif::set_gc_disabled(true);
  verif::set_instruction_budget(u64::MAX);

  let mut panicked = false;
  match &result {
    Ok((code, exit)) => {
      let outcome = match exit {
        VmExit::Ok => "ok",
        VmExit::RuntimeError => "runtime_error",
        VmExit::CompileError => "compile_error",
      };
      j.kv_str("outcome", outcome);
      j.kv_num("code", *code);
    },
    Err(_) => {
      panicked = true;
      let info = PANIC_INFO.lock().unwrap().clone().unwrap_or_default();
      if info.contains(verif::BUDGET_MESSAGE) {
        j.kv_str("outcome", "budget");
      } else {
        j.kv_str("outcome", "panic");
      }
      j.kv_num("code", -1);
      j.kv_str("panic", &info);
    },
  }

  // drop the vm (its destructor releases every object: layout mismatches on
  // that path are part of what C20 observes). A vm that panicked is leaked.
  let mut drop_panic = false;
  if !panicked {
    let dropped = panic::catch_unwind(AssertUnwindSafe(|| unsafe {
      drop(Box::from_raw(vm_ptr));
    }));
    if dropped.is_err() {
      drop_panic = true;
      let info = PANIC_INFO.lock().unwrap().clone().unwrap_or_default();
      j.kv_str("drop_panic", &info);
    }
  }
  j.kv_bool("drop_panicked", drop_panic);

  j.kv_str("stdout", &String::from_utf8_lossy(&container.stdout.take()));
  j.kv_str("stderr", &String::from_utf8_lossy(&container.stderr.take()));
  j.kv_num("instr", instr);

  j.kv_obj_begin("gc");
  j.kv_num("allocations", counters.allocations);
  j.kv_num("collections", counters.collections);
  j.kv_num("freed", counters.freed);
  j.kv_num("freeing_collections", counters.freeing_collections);
  j.kv_num("last_freeing_ordinal", counters.last_freeing_ordinal);
  j.kv_arr_begin("ordinals");
  for o in counters.collect_ordinals.iter().take(4096) {
    j.el_num(*o);
  }
  j.end_arr();
  j.end_obj();

  if let Some((a, f, l)) = run_end {
    j.kv_obj_begin("gc_run_end");
    j.kv_num("allocations", a);
    j.kv_num("freeing_collections", f);
    j.kv_num("last_freeing_ordinal", l);
    j.end_obj();
  }

  j.kv_obj_begin("alloc");
  let mismatches = alloc::MISMATCHES.with(|c| c.get());
  j.kv_num("mismatches", mismatches);
  j.kv_arr_begin("samples");
  let log = alloc::MISMATCH_LOG.with(|c| c.get());
  for (i, (s, a, ds, da)) in log.iter().enumerate() {
    if (i as u64) < mismatches {
      j.begin_arr();
      j.el_num(*s);
      j.el_num(*a);
      j.el_num(*ds);
      j.el_num(*da);
      j.end_arr();
    }
  }
  j.end_arr();
  j.kv_num("bad_frees", alloc::BAD_FREES.load(Ordering::Relaxed));
  j.end_obj();

  if !heap_snapshots.is_empty() {
    j.kv_arr_begin("heap");
    for (label, s) in &heap_snapshots {
      heap_json(&mut j, label, s);
    }
    j.end_arr();
  }
  if let Some(d) = &dump {
    dump_json(&mut j, d);
  }
  if let Some(r) = &verify_report {
    r.to_json(&mut j);
  }

  j.end_obj();
  j.out
}

fn main() {
  panic::set_hook(Box::new(|info| {
    let msg = if let Some(s) = info.payload().downcast_ref::<&str>() {
      s.to_string()
    } else if let Some(s) = info.payload().downcast_ref::<String>() {
      s.clone()
    } else {
      "<non string panic>".to_string()
    };
    let loc = info
      .location()
      .map(|l| format!("{}:{}", l.file(), l.line()))
      .unwrap_or_default();
    if std::env::var_os("LYWORKER_BACKTRACE").is_some() {
      eprintln!("panic: {msg} @ {loc}\n{}", std::backtrace::Backtrace::force_capture());
    }
    if let Ok(mut slot) = PANIC_INFO.lock() {
      // keep the first panic of a request
      if slot.is_none() {
        *slot = Some(format!("{msg} @ {loc}"));
      }
    }
  }));

  let stdin = std::io::stdin();
  let mut input = stdin.lock();
  let stdout = std::io::stdout();

  loop {
    let frame = match proto::read_frame(&mut input) {
      Ok(Some(frame)) => frame,
      Ok(None) => break,
      Err(_) => break,
    };
    let req = Arc::new(decode(&frame));
    let req2 = Arc::clone(&req);
    let handle_thread = std::thread::Builder::new()
      .stack_size(STACK_SIZE)
      .spawn(move || handle(&req2))
      .expect("spawn");
    let response = match handle_thread.join() {
      Ok(r) => r,
      Err(_) => {
        let info = PANIC_INFO.lock().map(|s| s.clone().unwrap_or_default()).unwrap_or_default();
        let mut j = Json::new();
        j.begin_obj();
        j.kv_str("outcome", "panic");
        j.kv_num("code", -1);
        j.kv_str("panic", &format!("harness thread panicked: {info}"));
        j.kv_str("stdout", "");
        j.kv_str("stderr", "");
        j.end_obj();
        j.out
      },
    };
    let mut out = stdout.lock();
    let bytes = response.as_bytes();
    out.write_all(&(bytes.len() as u32).to_le_bytes()).unwrap();
    out.write_all(bytes).unwrap();
    out.flush().unwrap();
  }
}
