//! In memory file system for the vm under test
use laythe_env::{
  fs::{Fs, FsImpl, LyDirEntry},
  io::IoImpl,
};
use std::{
  collections::HashMap,
  io,
  path::{Path, PathBuf},
  sync::{Arc, Mutex},
};

#[derive(Debug, Default, Clone)]
pub struct IoMemFs {
  files: Arc<Mutex<HashMap<PathBuf, String>>>,
}

impl IoMemFs {
  pub fn new(files: HashMap<PathBuf, String>) -> Self {
    Self {
      files: Arc::new(Mutex::new(files)),
    }
  }
}

impl IoImpl<Fs> for IoMemFs {
  fn make(&self) -> Fs {
    Fs::new(Box::new(MemFs {
      files: Arc::clone(&self.files),
    }))
  }
}

struct MemFs {
  files: Arc<Mutex<HashMap<PathBuf, String>>>,
}

fn not_found(path: &Path) -> io::Error {
  io::Error::new(
    io::ErrorKind::NotFound,
    format!("No such file or directory: {}", path.display()),
  )
}

impl FsImpl for MemFs {
  fn write_file(&self, path: &Path, contents: &str) -> io::Result<()> {
    self
      .files
      .lock()
      .unwrap()
      .insert(path.to_path_buf(), contents.to_string());
    Ok(())
  }

  fn read_file(&self, path: &Path) -> io::Result<String> {
    self
      .files
      .lock()
      .unwrap()
      .get(path)
      .cloned()
      .ok_or_else(|| not_found(path))
  }

  fn remove_file(&self, path: &Path) -> io::Result<()> {
    self
      .files
      .lock()
      .unwrap()
      .remove(path)
      .map(|_| ())
      .ok_or_else(|| not_found(path))
  }

  fn read_directory(&self, _path: &Path) -> io::Result<Vec<Box<dyn LyDirEntry>>> {
    Ok(vec![])
  }

  fn canonicalize(&self, path: &Path) -> io::Result<PathBuf> {
    if path.is_absolute() {
      Ok(path.to_path_buf())
    } else {
      Ok(PathBuf::from("/v").join(path))
    }
  }

  fn relative_path(&self, base: &Path, import: &Path) -> io::Result<PathBuf> {
    import
      .strip_prefix(base)
      .map(|prefix| prefix.to_path_buf())
      .map_err(|err| io::Error::new(io::ErrorKind::InvalidInput, err.to_string()))
  }
}
