//! Poisoning, quarantining, layout-checking global allocator.
//!
//! Every block carries a hidden header (requested size, requested alignment,
//! state magic). On release the caller's `Layout` is compared with the header
//! (mismatches are recorded, never panicked on), the user area is filled with
//! 0xDE and the block is parked in a FIFO quarantine so that a dangling
//! pointer keeps reading poison instead of a recycled object.
unsafe extern "C" {
  fn _exit(status: i32) -> !;
}

/// exit status of a worker that ran into its address space limit
pub const OOM_EXIT_STATUS: i32 = 77;

use std::alloc::{GlobalAlloc, Layout, System};
use std::cell::Cell;
use std::sync::atomic::{AtomicBool, AtomicI64, AtomicU64, AtomicUsize, Ordering};

const MAGIC_LIVE: u64 = 0xA110_C8ED_0B1E_C7ED;
const MAGIC_FREE: u64 = 0xF4EE_DF4E_EDF4_EED0;
pub const POISON: u8 = 0xDE;

#[repr(C)]
struct Hdr {
  size: usize,
  align: usize,
  magic: u64,
  pad: u64,
}

const HDR: usize = 32;

const RING: usize = 1 << 18;

struct Entry {
  base: *mut u8,
  total: usize,
  align: usize,
}

struct Quarantine {
  lock: AtomicBool,
  ring: std::cell::UnsafeCell<[Entry; RING]>,
  head: std::cell::UnsafeCell<usize>,
  len: std::cell::UnsafeCell<usize>,
  bytes: std::cell::UnsafeCell<usize>,
}

unsafe impl Sync for Quarantine {}

#[allow(clippy::declare_interior_mutable_const)]
const EMPTY: Entry = Entry {
  base: std::ptr::null_mut(),
  total: 0,
  align: 0,
};

static QUARANTINE: Quarantine = Quarantine {
  lock: AtomicBool::new(false),
  ring: std::cell::UnsafeCell::new([EMPTY; RING]),
  head: std::cell::UnsafeCell::new(0),
  len: std::cell::UnsafeCell::new(0),
  bytes: std::cell::UnsafeCell::new(0),
};

/// quarantine capacity in bytes; 0 = release immediately (address reuse allowed)
pub static QUARANTINE_CAP: AtomicUsize = AtomicUsize::new(64 << 20);
pub static LIVE_BYTES: AtomicI64 = AtomicI64::new(0);
pub static LIVE_BLOCKS: AtomicI64 = AtomicI64::new(0);
pub static TOTAL_ALLOCS: AtomicU64 = AtomicU64::new(0);
pub static BAD_FREES: AtomicU64 = AtomicU64::new(0);

pub const MISMATCH_SAMPLES: usize = 4;

thread_local! {
  pub static MISMATCHES: Cell<u64> = const { Cell::new(0) };
  pub static MISMATCH_LOG: Cell<[(usize, usize, usize, usize); MISMATCH_SAMPLES]> = const { Cell::new([(0, 0, 0, 0); MISMATCH_SAMPLES]) };
  pub static THREAD_LIVE_BYTES: Cell<i64> = const { Cell::new(0) };
  pub static THREAD_LIVE_BLOCKS: Cell<i64> = const { Cell::new(0) };
}

pub struct VerifAlloc;

fn total_layout(size: usize, align: usize) -> (Layout, usize) {
  let offset = if align > HDR { align } else { HDR };
  let a = if align > 16 { align } else { 16 };
  (
    Layout::from_size_align(size + offset, a).expect("layout"),
    offset,
  )
}

unsafe impl GlobalAlloc for VerifAlloc {
  unsafe fn alloc(&self, layout: Layout) -> *mut u8 {
    unsafe {
      let (total, offset) = total_layout(layout.size(), layout.align());
      let base = System.alloc(total);
      if base.is_null() {
        // the driver caps the worker's address space: running into the cap is reported through a reserved exit
        // status (the request is then inconclusive) instead of the abort Rust's allocation error handler would raise
        _exit(OOM_EXIT_STATUS);
      }
      let user = base.add(offset);
      let hdr = user.sub(HDR) as *mut Hdr;
      (*hdr).size = layout.size();
      (*hdr).align = layout.align();
      (*hdr).magic = MAGIC_LIVE;
      (*hdr).pad = 0;
      LIVE_BYTES.fetch_add(layout.size() as i64, Ordering::Relaxed);
      LIVE_BLOCKS.fetch_add(1, Ordering::Relaxed);
      TOTAL_ALLOCS.fetch_add(1, Ordering::Relaxed);
      let _ = THREAD_LIVE_BYTES.try_with(|c| c.set(c.get() + layout.size() as i64));
      let _ = THREAD_LIVE_BLOCKS.try_with(|c| c.set(c.get() + 1));
      user
    }
  }

  unsafe fn alloc_zeroed(&self, layout: Layout) -> *mut u8 {
    unsafe {
      let ptr = self.alloc(layout);
      if !ptr.is_null() {
        std::ptr::write_bytes(ptr, 0, layout.size());
      }
      ptr
    }
  }

  unsafe fn dealloc(&self, ptr: *mut u8, layout: Layout) {
    unsafe {
      let hdr = ptr.sub(HDR) as *mut Hdr;
      if (*hdr).magic != MAGIC_LIVE {
        // double free or a pointer we never handed out: record and leak
        BAD_FREES.fetch_add(1, Ordering::Relaxed);
        return;
      }
      let size = (*hdr).size;
      let align = (*hdr).align;
      if size != layout.size() || align != layout.align() {
        let _ = MISMATCHES.try_with(|c| {
          let n = c.get();
          c.set(n + 1);
          if (n as usize) < MISMATCH_SAMPLES {
            let _ = MISMATCH_LOG.try_with(|l| {
              let mut log = l.get();
              log[n as usize] = (size, align, layout.size(), layout.align());
              l.set(log);
            });
          }
        });
      }
      (*hdr).magic = MAGIC_FREE;
      LIVE_BYTES.fetch_sub(size as i64, Ordering::Relaxed);
      LIVE_BLOCKS.fetch_sub(1, Ordering::Relaxed);
      let _ = THREAD_LIVE_BYTES.try_with(|c| c.set(c.get() - size as i64));
      let _ = THREAD_LIVE_BLOCKS.try_with(|c| c.set(c.get() - 1));
      std::ptr::write_bytes(ptr, POISON, size);

      let (total, offset) = total_layout(size, align);
      let base = ptr.sub(offset);
      let cap = QUARANTINE_CAP.load(Ordering::Relaxed);
      if cap == 0 {
        System.dealloc(base, total);
        return;
      }
      park(base, total.size(), total.align(), cap);
    }
  }
}

unsafe fn park(base: *mut u8, total: usize, align: usize, cap: usize) {
  unsafe {
    let q = &QUARANTINE;
    while q
      .lock
      .compare_exchange_weak(false, true, Ordering::Acquire, Ordering::Relaxed)
      .is_err()
    {
      std::hint::spin_loop();
    }
    let ring = &mut *q.ring.get();
    let head = &mut *q.head.get();
    let len = &mut *q.len.get();
    let bytes = &mut *q.bytes.get();

    // evict oldest until there is room
    while *len > 0 && (*len == RING || *bytes + total > cap) {
      let e = &ring[*head];
      System.dealloc(e.base, Layout::from_size_align_unchecked(e.total, e.align));
      *bytes -= e.total;
      *head = (*head + 1) % RING;
      *len -= 1;
    }
    if total > cap {
      System.dealloc(base, Layout::from_size_align_unchecked(total, align));
    } else {
      let tail = (*head + *len) % RING;
      ring[tail] = Entry { base, total, align };
      *len += 1;
      *bytes += total;
    }
    q.lock.store(false, Ordering::Release);
  }
}

/// Release everything held in quarantine
pub fn flush_quarantine() {
  unsafe {
    let q = &QUARANTINE;
    while q
      .lock
      .compare_exchange_weak(false, true, Ordering::Acquire, Ordering::Relaxed)
      .is_err()
    {
      std::hint::spin_loop();
    }
    let ring = &mut *q.ring.get();
    let head = &mut *q.head.get();
    let len = &mut *q.len.get();
    let bytes = &mut *q.bytes.get();
    while *len > 0 {
      let e = &ring[*head];
      System.dealloc(e.base, Layout::from_size_align_unchecked(e.total, e.align));
      *bytes -= e.total;
      *head = (*head + 1) % RING;
      *len -= 1;
    }
    q.lock.store(false, Ordering::Release);
  }
}
