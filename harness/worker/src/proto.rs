//! Hand written wire format: binary requests, JSON responses.
use std::io::{self, Read};

pub struct Reader<'a> {
  buf: &'a [u8],
  pos: usize,
}

impl<'a> Reader<'a> {
  pub fn new(buf: &'a [u8]) -> Self {
    Self { buf, pos: 0 }
  }
  pub fn u8(&mut self) -> u8 {
    let v = self.buf[self.pos];
    self.pos += 1;
    v
  }
  pub fn u16(&mut self) -> u16 {
    let v = u16::from_le_bytes(self.buf[self.pos..self.pos + 2].try_into().unwrap());
    self.pos += 2;
    v
  }
  pub fn u32(&mut self) -> u32 {
    let v = u32::from_le_bytes(self.buf[self.pos..self.pos + 4].try_into().unwrap());
    self.pos += 4;
    v
  }
  pub fn u64(&mut self) -> u64 {
    let v = u64::from_le_bytes(self.buf[self.pos..self.pos + 8].try_into().unwrap());
    self.pos += 8;
    v
  }
  pub fn bytes(&mut self) -> &'a [u8] {
    let n = self.u32() as usize;
    let v = &self.buf[self.pos..self.pos + n];
    self.pos += n;
    v
  }
  pub fn string(&mut self) -> String {
    String::from_utf8_lossy(self.bytes()).into_owned()
  }
  pub fn at_end(&self) -> bool {
    self.pos >= self.buf.len()
  }
}

pub fn read_frame<R: Read>(input: &mut R) -> io::Result<Option<Vec<u8>>> {
  let mut len = [0u8; 4];
  match input.read_exact(&mut len) {
    Ok(()) => {},
    Err(e) if e.kind() == io::ErrorKind::UnexpectedEof => return Ok(None),
    Err(e) => return Err(e),
  }
  let n = u32::from_le_bytes(len) as usize;
  let mut buf = vec![0u8; n];
  input.read_exact(&mut buf)?;
  Ok(Some(buf))
}

/// Minimal JSON writer
#[derive(Default)]
pub struct Json {
  pub out: String,
  first: Vec<bool>,
}

impl Json {
  pub fn new() -> Self {
    Self::default()
  }
  fn sep(&mut self) {
    if let Some(first) = self.first.last_mut() {
      if *first {
        *first = false;
      } else {
        self.out.push(',');
      }
    }
  }
  pub fn begin_obj(&mut self) {
    self.sep();
    self.out.push('{');
    self.first.push(true);
  }
  pub fn end_obj(&mut self) {
    self.out.push('}');
    self.first.pop();
  }
  pub fn begin_arr(&mut self) {
    self.sep();
    self.out.push('[');
    self.first.push(true);
  }
  pub fn end_arr(&mut self) {
    self.out.push(']');
    self.first.pop();
  }
  fn write_str(&mut self, s: &str) {
    self.out.push('"');
    for c in s.chars() {
      match c {
        '"' => self.out.push_str("\\\""),
        '\\' => self.out.push_str("\\\\"),
        '\n' => self.out.push_str("\\n"),
        '\r' => self.out.push_str("\\r"),
        '\t' => self.out.push_str("\\t"),
        c if (c as u32) < 0x20 => self.out.push_str(&format!("\\u{:04x}", c as u32)),
        c => self.out.push(c),
      }
    }
    self.out.push('"');
  }
  // ---- keyed helpers (used inside objects)
  pub fn kv_str(&mut self, k: &str, v: &str) {
    self.sep();
    self.write_str(k);
    self.out.push(':');
    self.write_str(v);
  }
  pub fn kv_num<T: std::fmt::Display>(&mut self, k: &str, v: T) {
    self.sep();
    self.write_str(k);
    self.out.push(':');
    self.out.push_str(&v.to_string());
  }
  pub fn kv_bool(&mut self, k: &str, v: bool) {
    self.sep();
    self.write_str(k);
    self.out.push(':');
    self.out.push_str(if v { "true" } else { "false" });
  }
  pub fn kv_f64(&mut self, k: &str, v: f64) {
    self.sep();
    self.write_str(k);
    self.out.push(':');
    self.write_f64(v);
  }
  fn write_f64(&mut self, v: f64) {
    if v.is_finite() {
      self.out.push_str(&format!("{v:?}"));
    } else {
      // not representable in JSON; send as string
      self.write_str(&format!("{v}"));
    }
  }
  pub fn kv_arr_begin(&mut self, k: &str) {
    self.sep();
    self.write_str(k);
    self.out.push(':');
    self.out.push('[');
    self.first.push(true);
  }
  pub fn kv_obj_begin(&mut self, k: &str) {
    self.sep();
    self.write_str(k);
    self.out.push(':');
    self.out.push('{');
    self.first.push(true);
  }
  // ---- array element helpers
  pub fn el_num<T: std::fmt::Display>(&mut self, v: T) {
    self.sep();
    self.out.push_str(&v.to_string());
  }
  pub fn el_str(&mut self, v: &str) {
    self.sep();
    self.write_str(v);
  }
  pub fn el_f64(&mut self, v: f64) {
    self.sep();
    self.write_f64(v);
  }
}
