//! Captured stdio for the vm under test: stdout / stderr buffers, scripted lines with a
//! proper end of file (read_line returns Ok(0) once the script is exhausted).
use laythe_env::{
  io::IoImpl,
  stdio::{Stdio, StdioImpl},
};
use std::{
  io::{self, Cursor, Read, Write},
  sync::{Arc, Mutex},
};
use termcolor::{ColorSpec, WriteColor};

#[derive(Clone, Default)]
pub struct SharedBuf(pub Arc<Mutex<Vec<u8>>>);

impl SharedBuf {
  pub fn take(&self) -> Vec<u8> {
    self.0.lock().map(|b| b.clone()).unwrap_or_default()
  }
}

impl Write for SharedBuf {
  fn write(&mut self, buf: &[u8]) -> io::Result<usize> {
    if let Ok(mut b) = self.0.lock() {
      // cap captured output so runaway programs cannot exhaust memory
      if b.len() < (8 << 20) {
        b.extend_from_slice(buf);
      }
    }
    Ok(buf.len())
  }
  fn flush(&mut self) -> io::Result<()> {
    Ok(())
  }
}

impl WriteColor for SharedBuf {
  fn supports_color(&self) -> bool {
    false
  }
  fn set_color(&mut self, _: &ColorSpec) -> io::Result<()> {
    Ok(())
  }
  fn reset(&mut self) -> io::Result<()> {
    Ok(())
  }
}

#[derive(Default)]
pub struct Shared {
  pub stdout: SharedBuf,
  pub stderr: SharedBuf,
  pub lines: Vec<String>,
  pub line_index: Mutex<usize>,
  pub stdin: Vec<u8>,
}

pub struct IoCapture {
  pub shared: Arc<Shared>,
}

impl std::fmt::Debug for IoCapture {
  fn fmt(&self, f: &mut std::fmt::Formatter<'_>) -> std::fmt::Result {
    f.write_str("IoCapture")
  }
}

impl IoImpl<Stdio> for IoCapture {
  fn make(&self) -> Stdio {
    Stdio::new(Box::new(Capture {
      shared: Arc::clone(&self.shared),
      stdout: self.shared.stdout.clone(),
      stderr: self.shared.stderr.clone(),
      stdin: Cursor::new(self.shared.stdin.clone()),
    }))
  }
}

struct Capture {
  shared: Arc<Shared>,
  stdout: SharedBuf,
  stderr: SharedBuf,
  stdin: Cursor<Vec<u8>>,
}

impl StdioImpl for Capture {
  fn stdout(&mut self) -> &mut dyn Write {
    &mut self.stdout
  }
  fn stderr(&mut self) -> &mut dyn Write {
    &mut self.stderr
  }
  fn stderr_color(&mut self) -> &mut dyn WriteColor {
    &mut self.stderr
  }
  fn stdin(&mut self) -> &mut dyn Read {
    &mut self.stdin
  }
  fn read_line(&self, buffer: &mut String) -> io::Result<usize> {
    let mut index = self.shared.line_index.lock().unwrap();
    match self.shared.lines.get(*index) {
      Some(line) => {
        *index += 1;
        buffer.push_str(line);
        Ok(line.len())
      },
      None => Ok(0),
    }
  }
}
