//! Independent bytecode verifier (placeholder until the full analysis lands)
use crate::proto::Json;
use laythe_vm::verif::CompileDump;

pub struct Report {
  pub findings: Vec<String>,
  pub functions: usize,
}

impl Report {
  pub fn to_json(&self, j: &mut Json) {
    j.kv_obj_begin("verify");
    j.kv_num("functions", self.functions);
    j.kv_arr_begin("findings");
    for f in &self.findings {
      j.el_str(f);
    }
    j.end_arr();
    j.end_obj();
  }
}

pub fn verify(dump: &CompileDump) -> Report {
  Report {
    findings: vec![],
    functions: dump.funs.len(),
  }
}
