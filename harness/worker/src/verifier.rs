//! Independent bytecode verifier (property C06).
//!
//! For every function of a `CompileDump` this decodes the reachable code, builds
//! the control flow graph on the fly and runs a worklist abstract interpretation
//! over two small integers per program point:
//!
//! * the operand stack depth relative to the frame base (`stack_start`). Slot 0
//!   is the callee / receiver and slots `1..=parameter_count` are the arguments,
//!   so a function is entered with depth `1 + parameter_count` (the script with 1)
//! * the number of exception handlers this function has pushed and not yet popped
//!
//! Opcode *numbers* come from `laythe_vm::verif::byte_code_table()` (looked up by
//! name). Operand widths and stack effects are a hand written table transcribed
//! from `ByteCodeEncoder::encode` (widths) and from the interpreter in
//! `laythe_vm/src/vm/ops.rs` (what every `op_*` pops and pushes on its normal
//! path). `SymbolicByteCode::stack_effect` is deliberately NOT consulted: wrong
//! entries in that table are one of the things this verifier has to find.
//!
//! The verifier never indexes unchecked and never loops unboundedly so it can be
//! fed arbitrary bytes.
//!
//! ## What a function has reserved (finding `exceeds-reserved`)
//!
//! * called function: `Fiber::push_frame` runs `ensure_stack(fun.max_slots())`
//!   with `stack_top` just above the last argument, i.e. at
//!   `frame base + 1 + arg_count`. Capacity is therefore guaranteed up to
//!   `base + 1 + arg_count + max_slots` (the vector may happen to be larger but
//!   nothing promises that)
//! * launched fiber: `Fiber::split` allocates exactly
//!   `max_slots + arg_count + 1` values and copies callee + arguments into it:
//!   the same bound, but here it is exact, there is no slack at all
//! * script (main or imported module): `create_fiber` calls `Fiber::new` with
//!   `max_slots + 1` values, `stack_top = base + 1`, `parameter_count == 0`:
//!   again exactly `max_slots` values above the entry depth
//!
//! Every function the compiler emits has `Arity::Fixed(params)` (the script
//! `Fixed(0)`) so `arg_count == parameter_count` on every entry and the three
//! cases agree: `max depth - (1 + parameter_count) <= max_slots`. If variadic or
//! default arities were ever compiled `arg_count` could exceed
//! `parameter_count`, which only raises the amount reserved, so the bound used
//! here stays the tightest that is right for all entries.
use crate::proto::Json;
use laythe_vm::verif::{byte_code_table, CompileDump, ConstDump, FunDump};
use std::collections::BTreeSet;

/// Max number of worklist steps per function
const STEP_BUDGET: usize = 1_000_000;

/// Max number of findings kept per function (a fuzzer can produce many)
const FINDING_CAP: usize = 200;

#[derive(Clone, Copy, Debug, PartialEq, Eq)]
enum Op {
  Return,
  Negate,
  Add,
  Subtract,
  Multiply,
  Divide,
  Not,
  And,
  Or,
  Constant,
  ConstantLong,
  Nil,
  True,
  False,
  List,
  Tuple,
  Map,
  Launch,
  Channel,
  BufferedChannel,
  Receive,
  Send,
  Interpolate,
  IterNext,
  IterCurrent,
  Drop,
  DropN,
  Dup,
  Import,
  ImportSym,
  Export,
  LoadGlobal,
  DeclareModSym,
  GetModSym,
  SetModSym,
  Box,
  EmptyBox,
  FillBox,
  GetBox,
  SetBox,
  GetLocal,
  SetLocal,
  GetCapture,
  SetCapture,
  GetPropByName,
  SetPropByName,
  GetProp,
  SetProp,
  JumpIfFalse,
  Jump,
  Loop,
  PushHandler,
  CheckHandler,
  GetError,
  FinishUnwind,
  ContinueUnwind,
  Raise,
  PopHandler,
  Call,
  Invoke,
  SuperInvoke,
  Closure,
  Method,
  Field,
  StaticMethod,
  Class,
  Inherit,
  GetSuper,
  Equal,
  NotEqual,
  Greater,
  GreaterEqual,
  Less,
  LessEqual,
}

/// How the operands of an instruction are laid out behind the opcode byte.
/// All shorts and the cache slot ids are native endian
#[derive(Clone, Copy, Debug, PartialEq, Eq)]
enum Layout {
  /// `op`
  None,
  /// `op_byte`: one u8
  U8,
  /// `op_short` / `op_jump`: one u16
  U16,
  /// `push_op_u16_tuple`: two u16
  U16U16,
  /// `op_short` followed by the 4 raw bytes of a `PropertySlot`
  U16PropSlot,
  /// `op_invoke` (u16, u8) followed by the 4 raw bytes of an `InvokeSlot`
  U16U8InvokeSlot,
  /// `op_short` followed by one 2 byte `CaptureIndex` per capture of the
  /// referenced function
  Closure,
}

/// name, op, layout. Widths transcribed from `ByteCodeEncoder::encode` and
/// cross checked against the `read_byte/read_short/read_slot` calls in ops.rs
const OPS: &[(&str, Op, Layout)] = &[
  ("Return", Op::Return, Layout::None),
  ("Negate", Op::Negate, Layout::None),
  ("Add", Op::Add, Layout::None),
  ("Subtract", Op::Subtract, Layout::None),
  ("Multiply", Op::Multiply, Layout::None),
  ("Divide", Op::Divide, Layout::None),
  ("Not", Op::Not, Layout::None),
  ("And", Op::And, Layout::U16),
  ("Or", Op::Or, Layout::U16),
  ("Constant", Op::Constant, Layout::U8),
  ("ConstantLong", Op::ConstantLong, Layout::U16),
  ("Nil", Op::Nil, Layout::None),
  ("True", Op::True, Layout::None),
  ("False", Op::False, Layout::None),
  ("List", Op::List, Layout::U16),
  ("Tuple", Op::Tuple, Layout::U16),
  ("Map", Op::Map, Layout::U16),
  ("Launch", Op::Launch, Layout::U8),
  ("Channel", Op::Channel, Layout::None),
  ("BufferedChannel", Op::BufferedChannel, Layout::None),
  ("Receive", Op::Receive, Layout::None),
  ("Send", Op::Send, Layout::None),
  ("Interpolate", Op::Interpolate, Layout::U16),
  ("IterNext", Op::IterNext, Layout::U16),
  ("IterCurrent", Op::IterCurrent, Layout::U16),
  ("Drop", Op::Drop, Layout::None),
  ("DropN", Op::DropN, Layout::U8),
  ("Dup", Op::Dup, Layout::None),
  ("Import", Op::Import, Layout::U16),
  ("ImportSym", Op::ImportSym, Layout::U16U16),
  ("Export", Op::Export, Layout::U16),
  ("LoadGlobal", Op::LoadGlobal, Layout::U16),
  ("DeclareModSym", Op::DeclareModSym, Layout::U16U16),
  ("GetModSym", Op::GetModSym, Layout::U16),
  ("SetModSym", Op::SetModSym, Layout::U16),
  ("Box", Op::Box, Layout::U8),
  ("EmptyBox", Op::EmptyBox, Layout::None),
  ("FillBox", Op::FillBox, Layout::None),
  ("GetBox", Op::GetBox, Layout::U8),
  ("SetBox", Op::SetBox, Layout::U8),
  ("GetLocal", Op::GetLocal, Layout::U8),
  ("SetLocal", Op::SetLocal, Layout::U8),
  ("GetCapture", Op::GetCapture, Layout::U8),
  ("SetCapture", Op::SetCapture, Layout::U8),
  ("GetPropByName", Op::GetPropByName, Layout::U16PropSlot),
  ("SetPropByName", Op::SetPropByName, Layout::U16PropSlot),
  ("GetProp", Op::GetProp, Layout::U16),
  ("SetProp", Op::SetProp, Layout::U16),
  ("JumpIfFalse", Op::JumpIfFalse, Layout::U16),
  ("Jump", Op::Jump, Layout::U16),
  ("Loop", Op::Loop, Layout::U16),
  ("PushHandler", Op::PushHandler, Layout::U16U16),
  ("CheckHandler", Op::CheckHandler, Layout::U16),
  ("GetError", Op::GetError, Layout::None),
  ("FinishUnwind", Op::FinishUnwind, Layout::None),
  ("ContinueUnwind", Op::ContinueUnwind, Layout::None),
  ("Raise", Op::Raise, Layout::None),
  ("PopHandler", Op::PopHandler, Layout::None),
  ("Call", Op::Call, Layout::U8),
  ("Invoke", Op::Invoke, Layout::U16U8InvokeSlot),
  ("SuperInvoke", Op::SuperInvoke, Layout::U16U8InvokeSlot),
  ("Closure", Op::Closure, Layout::Closure),
  ("Method", Op::Method, Layout::U16),
  ("Field", Op::Field, Layout::U16),
  ("StaticMethod", Op::StaticMethod, Layout::U16),
  ("Class", Op::Class, Layout::U16),
  ("Inherit", Op::Inherit, Layout::None),
  ("GetSuper", Op::GetSuper, Layout::U16),
  ("Equal", Op::Equal, Layout::None),
  ("NotEqual", Op::NotEqual, Layout::None),
  ("Greater", Op::Greater, Layout::None),
  ("GreaterEqual", Op::GreaterEqual, Layout::None),
  ("Less", Op::Less, Layout::None),
  ("LessEqual", Op::LessEqual, Layout::None),
];

/// byte -> (name, op, layout) built from the vm's own (name, byte) table
struct OpTable {
  by_byte: Vec<Option<(&'static str, Op, Layout)>>,
  /// problems matching the vm's table against `OPS`
  mismatches: Vec<String>,
}

impl OpTable {
  fn new() -> Self {
    let mut by_byte: Vec<Option<(&'static str, Op, Layout)>> = vec![None; 256];
    let mut mismatches = vec![];
    let mut seen = vec![false; OPS.len()];

    for (name, byte) in byte_code_table() {
      match OPS.iter().position(|(n, _, _)| *n == name) {
        Some(position) => {
          if let (Some(entry), Some(slot)) = (OPS.get(position), by_byte.get_mut(byte as usize)) {
            *slot = Some(*entry);
          }
          if let Some(s) = seen.get_mut(position) {
            *s = true;
          }
        },
        None => mismatches.push(format!("vm opcode {name}={byte} unknown to the verifier")),
      }
    }
    for (position, (name, _, _)) in OPS.iter().enumerate() {
      if !seen.get(position).copied().unwrap_or(false) {
        mismatches.push(format!("verifier opcode {name} unknown to the vm"));
      }
    }

    Self {
      by_byte,
      mismatches,
    }
  }

  fn get(&self, byte: u8) -> Option<(&'static str, Op, Layout)> {
    self.by_byte.get(byte as usize).copied().flatten()
  }
}

pub struct HandlerInfo {
  /// offset of the PushHandler
  pub at: usize,
  /// the slot depth operand
  pub recorded: i64,
  /// the abstract depth at the PushHandler
  pub expected: i64,
}

pub struct FunSummary {
  pub index: usize,
  pub name: String,
  /// number of reachable instructions
  pub instructions: usize,
  /// the reachable code has a conditional branch, a loop or a handler
  pub paths_gt1: bool,
  /// maximum depth relative to the frame base
  pub max_depth: i64,
  pub entry_depth: i64,
  pub max_slots: usize,
  /// distinct depths at `Return` (before the operand is popped) relative to
  /// `1 + parameter_count`
  pub return_depths: Vec<i64>,
  pub handlers: Vec<HandlerInfo>,
}

pub struct Report {
  pub findings: Vec<String>,
  pub functions: usize,
  pub funs: Vec<FunSummary>,
}

impl Report {
  pub fn to_json(&self, j: &mut Json) {
    j.kv_obj_begin("verify");
    j.kv_num("functions", self.functions);
    j.kv_arr_begin("findings");
    for f in &self.findings {
      j.el_str(f);
    }
    j.end_arr();
    j.kv_arr_begin("funs");
    for f in &self.funs {
      j.begin_obj();
      j.kv_num("index", f.index);
      j.kv_str("name", &f.name);
      j.kv_num("instructions", f.instructions);
      j.kv_bool("paths_gt1", f.paths_gt1);
      j.kv_num("max_depth", f.max_depth);
      j.kv_num("entry_depth", f.entry_depth);
      j.kv_num("max_slots", f.max_slots);
      j.kv_arr_begin("return_depths");
      for d in &f.return_depths {
        j.el_num(*d);
      }
      j.end_arr();
      j.kv_arr_begin("handlers");
      for h in &f.handlers {
        j.begin_obj();
        j.kv_num("at", h.at);
        j.kv_num("recorded", h.recorded);
        j.kv_num("expected", h.expected);
        j.end_obj();
      }
      j.end_arr();
      j.end_obj();
    }
    j.end_arr();
    j.end_obj();
  }
}

pub fn verify(dump: &CompileDump) -> Report {
  let table = OpTable::new();
  let mut report = Report {
    findings: vec![],
    functions: dump.funs.len(),
    funs: vec![],
  };

  for mismatch in &table.mismatches {
    report
      .findings
      .push(format!("opcode-table-mismatch fn=-:- at=0 {mismatch}"));
  }

  for (index, fun) in dump.funs.iter().enumerate() {
    let mut analysis = Analysis::new(dump, &table, index, fun);
    analysis.run();
    let (summary, findings) = analysis.finish();
    report.findings.extend(findings);
    report.funs.push(summary);
  }

  report
}

/// Abstract state at an instruction start
#[derive(Clone, Copy, PartialEq, Eq)]
struct State {
  /// stack depth relative to the frame base
  depth: i64,
  /// handlers pushed by this function that are still active
  handlers: i64,
}

/// What a byte of the code has been decoded as
#[derive(Clone, Copy, PartialEq, Eq)]
enum Cover {
  Untouched,
  Start,
  Operand,
}

struct Analysis<'a> {
  dump: &'a CompileDump,
  table: &'a OpTable,
  index: usize,
  fun: &'a FunDump,
  code: &'a [u8],
  /// `1 + parameter_count`
  floor: i64,
  states: Vec<Option<State>>,
  /// The instruction that first transferred control to an offset
  first_from: Vec<usize>,
  cover: Vec<Cover>,
  work: Vec<usize>,
  findings: Vec<String>,
  suppressed: usize,
  instructions: usize,
  paths_gt1: bool,
  max_depth: i64,
  max_at: usize,
  return_depths: BTreeSet<i64>,
  handlers: Vec<HandlerInfo>,
}

impl<'a> Analysis<'a> {
  fn new(dump: &'a CompileDump, table: &'a OpTable, index: usize, fun: &'a FunDump) -> Self {
    let n = fun.code.len();
    let floor = 1 + fun.parameter_count as i64;
    Self {
      dump,
      table,
      index,
      fun,
      code: &fun.code,
      floor,
      states: vec![None; n],
      first_from: vec![0; n],
      cover: vec![Cover::Untouched; n],
      work: vec![],
      findings: vec![],
      suppressed: 0,
      instructions: 0,
      paths_gt1: false,
      max_depth: floor,
      max_at: 0,
      return_depths: BTreeSet::new(),
      handlers: vec![],
    }
  }

  fn finding(&mut self, kind: &str, at: usize, details: String) {
    if self.findings.len() >= FINDING_CAP {
      self.suppressed += 1;
      return;
    }
    self.findings.push(format!(
      "{kind} fn={}:{} at={at} {details}",
      self.index, self.fun.name
    ));
  }

  fn finish(mut self) -> (FunSummary, Vec<String>) {
    let reserved = self.fun.max_slots as i64;
    if self.max_depth - self.floor > reserved {
      let details = format!(
        "max_depth={} entry_depth={} needs={} max_slots={}",
        self.max_depth,
        self.floor,
        self.max_depth - self.floor,
        self.fun.max_slots
      );
      let at = self.max_at;
      self.finding("exceeds-reserved", at, details);
    }
    if self.suppressed > 0 {
      let details = format!("suppressed={}", self.suppressed);
      self.findings.push(format!(
        "findings-truncated fn={}:{} at=0 {details}",
        self.index, self.fun.name
      ));
    }

    let summary = FunSummary {
      index: self.index,
      name: self.fun.name.clone(),
      instructions: self.instructions,
      paths_gt1: self.paths_gt1,
      max_depth: self.max_depth,
      entry_depth: self.floor,
      max_slots: self.fun.max_slots,
      return_depths: self.return_depths.iter().copied().collect(),
      handlers: self.handlers,
    };
    (summary, self.findings)
  }

  fn u8_at(&self, offset: usize) -> Option<u8> {
    self.code.get(offset).copied()
  }

  fn u16_at(&self, offset: usize) -> Option<u16> {
    let a = self.code.get(offset).copied()?;
    let b = self.code.get(offset.checked_add(1)?).copied()?;
    Some(u16::from_ne_bytes([a, b]))
  }

  fn u32_at(&self, offset: usize) -> Option<u32> {
    let mut bytes = [0u8; 4];
    for (i, byte) in bytes.iter_mut().enumerate() {
      *byte = self.code.get(offset.checked_add(i)?).copied()?;
    }
    Some(u32::from_ne_bytes(bytes))
  }

  /// Transfer control to `target` with `state`. `fallthrough` only selects the
  /// wording of an out of range transfer
  fn flow(&mut self, from: usize, target: Option<usize>, state: State, fallthrough: bool) {
    let n = self.code.len();
    let target = match target {
      Some(target) if target < n => target,
      other => {
        let shown = match other {
          Some(target) => target.to_string(),
          None => "overflow".to_string(),
        };
        if fallthrough {
          self.finding(
            "falls-off-end",
            from,
            format!("next={shown} code_len={n}"),
          );
        } else {
          self.finding(
            "jump-out-of-range",
            from,
            format!("target={shown} code_len={n}"),
          );
        }
        return;
      },
    };

    match self.states.get(target).copied().flatten() {
      None => {
        if let Some(slot) = self.states.get_mut(target) {
          *slot = Some(state);
        }
        if let Some(slot) = self.first_from.get_mut(target) {
          *slot = from;
        }
        self.work.push(target);
      },
      Some(existing) => {
        if existing.depth != state.depth {
          let first = self.first_from.get(target).copied().unwrap_or(0);
          self.finding(
            "join-mismatch",
            target,
            format!(
              "depth={} from={} but depth={} from={}",
              existing.depth, first, state.depth, from
            ),
          );
        }
        if existing.handlers != state.handlers {
          let first = self.first_from.get(target).copied().unwrap_or(0);
          self.finding(
            "handler-join-mismatch",
            target,
            format!(
              "handlers={} from={} but handlers={} from={}",
              existing.handlers, first, state.handlers, from
            ),
          );
        }
      },
    }
  }

  fn constant(&self, index: usize) -> Option<&'a ConstDump> {
    self.fun.constants.get(index)
  }

  /// A constant that the interpreter reads with `read_string`
  fn check_name_constant(&mut self, at: usize, name: &str, index: usize) {
    match self.constant(index) {
      None => {
        let len = self.fun.constants.len();
        self.finding(
          "const-out-of-range",
          at,
          format!("{name} index={index} constants={len}"),
        );
      },
      Some(ConstDump::Str(_)) => (),
      Some(other) => {
        let kind = const_kind(other);
        self.finding(
          "const-kind",
          at,
          format!("{name} index={index} expected=str found={kind}"),
        );
      },
    }
  }

  /// A constant that the interpreter reads with `read_constant(..).to_obj().to_list()`
  fn check_path_constant(&mut self, at: usize, name: &str, index: usize) {
    match self.constant(index) {
      None => {
        let len = self.fun.constants.len();
        self.finding(
          "const-out-of-range",
          at,
          format!("{name} index={index} constants={len}"),
        );
      },
      Some(ConstDump::Other(kind)) if kind == "List" => (),
      Some(other) => {
        let kind = const_kind(other);
        self.finding(
          "const-kind",
          at,
          format!("{name} index={index} expected=list found={kind}"),
        );
      },
    }
  }

  fn run(&mut self) {
    if self.fun.lines.len() != self.code.len() {
      let details = format!("lines={} code={}", self.fun.lines.len(), self.code.len());
      self.finding("lines-length", 0, details);
    }
    if self.code.is_empty() {
      self.finding("falls-off-end", 0, "next=0 code_len=0".to_string());
      return;
    }

    if let Some(slot) = self.states.get_mut(0) {
      *slot = Some(State {
        depth: self.floor,
        handlers: 0,
      });
    }
    self.work.push(0);

    let mut steps = 0usize;
    while let Some(at) = self.work.pop() {
      steps += 1;
      if steps > STEP_BUDGET {
        self.finding("analysis-budget", at, format!("steps={steps}"));
        break;
      }
      self.step(at);
    }
  }

  /// Mark the bytes of the instruction at `at` and report transfers that were
  /// seen earlier and target one of its operand bytes
  fn claim(&mut self, at: usize, len: usize) {
    if let Some(slot) = self.cover.get_mut(at) {
      *slot = Cover::Start;
    }
    for offset in at.saturating_add(1)..at.saturating_add(len) {
      match self.cover.get(offset).copied() {
        Some(Cover::Start) => {
          // some transfer targets a byte that is an operand of this instruction
          let from = self.first_from.get(offset).copied().unwrap_or(0);
          self.finding(
            "jump-not-boundary",
            from,
            format!("target={offset} inside instruction at={at} len={len}"),
          );
        },
        Some(Cover::Untouched) => {
          if let Some(slot) = self.cover.get_mut(offset) {
            *slot = Cover::Operand;
          }
        },
        _ => (),
      }
    }
  }

  fn step(&mut self, at: usize) {
    let state = match self.states.get(at).copied().flatten() {
      Some(state) => state,
      None => return,
    };
    let d = state.depth;
    let h = state.handlers;

    // -- instruction boundary
    match self.cover.get(at).copied() {
      Some(Cover::Operand) => {
        let from = self.first_from.get(at).copied().unwrap_or(0);
        self.finding(
          "jump-not-boundary",
          from,
          format!("target={at} inside a decoded instruction"),
        );
        return;
      },
      Some(Cover::Start) => return,
      Some(Cover::Untouched) => (),
      None => return,
    }

    // -- opcode
    let byte = match self.u8_at(at) {
      Some(byte) => byte,
      None => return,
    };
    let (name, op, layout) = match self.table.get(byte) {
      Some(entry) => entry,
      None => {
        if let Some(slot) = self.cover.get_mut(at) {
          *slot = Cover::Start;
        }
        self.finding("bad-opcode", at, format!("byte={byte}"));
        return;
      },
    };

    // -- operands
    let mut a: usize = 0;
    let mut b: usize = 0;
    let mut cache_slot: Option<u32> = None;
    let mut len: usize = 1;
    let decoded = match layout {
      Layout::None => Some(()),
      Layout::U8 => {
        len = 2;
        self.u8_at(at + 1).map(|v| a = v as usize)
      },
      Layout::U16 | Layout::Closure => {
        len = 3;
        self.u16_at(at + 1).map(|v| a = v as usize)
      },
      Layout::U16U16 => {
        len = 5;
        match (self.u16_at(at + 1), self.u16_at(at + 3)) {
          (Some(x), Some(y)) => {
            a = x as usize;
            b = y as usize;
            Some(())
          },
          _ => None,
        }
      },
      Layout::U16PropSlot => {
        len = 7;
        match (self.u16_at(at + 1), self.u32_at(at + 3)) {
          (Some(x), Some(slot)) => {
            a = x as usize;
            cache_slot = Some(slot);
            Some(())
          },
          _ => None,
        }
      },
      Layout::U16U8InvokeSlot => {
        len = 8;
        match (self.u16_at(at + 1), self.u8_at(at + 3), self.u32_at(at + 4)) {
          (Some(x), Some(y), Some(slot)) => {
            a = x as usize;
            b = y as usize;
            cache_slot = Some(slot);
            Some(())
          },
          _ => None,
        }
      },
    };
    if decoded.is_none() {
      if let Some(slot) = self.cover.get_mut(at) {
        *slot = Cover::Start;
      }
      let n = self.code.len();
      self.finding(
        "truncated",
        at,
        format!("{name} needs={len} code_len={n}"),
      );
      return;
    }

    // -- closure capture words: their number comes from the referenced function
    let mut captures: Vec<(u8, u8)> = vec![];
    if op == Op::Closure {
      let nested = match self.constant(a) {
        Some(ConstDump::Fun(nested)) => self.dump.funs.get(*nested),
        _ => None,
      };
      match nested {
        Some(nested) => {
          for i in 0..nested.capture_count {
            let offset = at.saturating_add(3).saturating_add(i.saturating_mul(2));
            match (self.u8_at(offset), self.u8_at(offset.saturating_add(1))) {
              (Some(tag), Some(payload)) => captures.push((tag, payload)),
              _ => {
                if let Some(slot) = self.cover.get_mut(at) {
                  *slot = Cover::Start;
                }
                let n = self.code.len();
                self.finding(
                  "truncated",
                  at,
                  format!(
                    "{name} capture word {i} of {} past code_len={n}",
                    nested.capture_count
                  ),
                );
                return;
              },
            }
          }
          len = 3usize.saturating_add(nested.capture_count.saturating_mul(2));
        },
        None => {
          // without the function the instruction length is unknown
          if let Some(slot) = self.cover.get_mut(at) {
            *slot = Cover::Start;
          }
          match self.constant(a) {
            None => {
              let n = self.fun.constants.len();
              self.finding(
                "const-out-of-range",
                at,
                format!("{name} index={a} constants={n}"),
              );
            },
            Some(other) => {
              let kind = const_kind(other);
              self.finding(
                "const-kind",
                at,
                format!("{name} index={a} expected=fun found={kind}"),
              );
            },
          }
          return;
        },
      }
    }

    self.claim(at, len);
    self.instructions += 1;

    // -- operand checks that do not depend on the stack
    match op {
      Op::Constant | Op::ConstantLong => {
        if self.constant(a).is_none() {
          let n = self.fun.constants.len();
          self.finding(
            "const-out-of-range",
            at,
            format!("{name} index={a} constants={n}"),
          );
        }
      },
      Op::GetPropByName
      | Op::SetPropByName
      | Op::Invoke
      | Op::SuperInvoke
      | Op::GetSuper
      | Op::Class
      | Op::Method
      | Op::StaticMethod
      | Op::Field
      | Op::Export
      | Op::LoadGlobal
      | Op::DeclareModSym
      | Op::IterNext
      | Op::IterCurrent => self.check_name_constant(at, name, a),
      Op::Import => self.check_path_constant(at, name, a),
      Op::ImportSym => {
        self.check_path_constant(at, name, a);
        self.check_name_constant(at, name, b);
      },
      Op::GetCapture | Op::SetCapture => {
        if a >= self.fun.capture_count {
          let n = self.fun.capture_count;
          self.finding(
            "capture-out-of-range",
            at,
            format!("{name} index={a} capture_count={n}"),
          );
        }
      },
      _ => (),
    }
    if let Some(slot) = cache_slot {
      let (kind, limit) = match op {
        Op::GetPropByName | Op::SetPropByName => ("property", self.dump.property_slots),
        _ => ("invoke", self.dump.invoke_slots),
      };
      if slot as usize >= limit {
        self.finding(
          "cache-slot-out-of-range",
          at,
          format!("{name} {kind}_slot={slot} {kind}_slots={limit}"),
        );
      }
    }

    // -- locals
    match op {
      Op::GetLocal | Op::SetLocal | Op::GetBox | Op::SetBox | Op::Box => {
        if a as i64 >= d {
          self.finding(
            "slot-out-of-range",
            at,
            format!("{name} slot={a} depth={d}"),
          );
        }
      },
      Op::Closure => {
        for (i, (tag, payload)) in captures.iter().enumerate() {
          match tag {
            // CaptureIndex::Local
            0 => {
              if *payload as i64 >= d {
                self.finding(
                  "slot-out-of-range",
                  at,
                  format!("{name} capture {i} Local({payload}) depth={d}"),
                );
              }
            },
            // CaptureIndex::Enclosing
            1 => {
              if *payload as usize >= self.fun.capture_count {
                let n = self.fun.capture_count;
                self.finding(
                  "capture-out-of-range",
                  at,
                  format!("{name} capture {i} Enclosing({payload}) capture_count={n}"),
                );
              }
            },
            _ => {
              self.finding(
                "bad-capture-index",
                at,
                format!("{name} capture {i} tag={tag} payload={payload}"),
              );
            },
          }
        }
      },
      _ => (),
    }

    // -- stack effect on the normal path, transcribed from vm/ops.rs. A value that
    // is only peeked counts as popped and pushed again so that reading below
    // the function's fixed slots is an underflow too
    let a64 = a as i64;
    let b64 = b as i64;
    let (pops, pushes): (i64, i64) = match op {
      // pop result, pop frame
      Op::Return => (1, 0),
      Op::Negate | Op::Not => (1, 1),
      Op::Add
      | Op::Subtract
      | Op::Multiply
      | Op::Divide
      | Op::Equal
      | Op::NotEqual
      | Op::Greater
      | Op::GreaterEqual
      | Op::Less
      | Op::LessEqual => (2, 1),
      // peek(0); the two edges differ, see below
      Op::And | Op::Or => (1, 0),
      Op::Constant | Op::ConstantLong | Op::Nil | Op::True | Op::False => (0, 1),
      Op::List | Op::Tuple | Op::Interpolate => (a64, 1),
      Op::Map => (a64 * 2, 1),
      // closure case: the callee's frame (callee + args) moves to the new fiber and
      // `Fiber::split` resets the launcher's stack top to where the callee was
      Op::Launch => (a64 + 1, 0),
      Op::Channel => (0, 1),
      // pop capacity, push channel
      Op::BufferedChannel => (1, 1),
      // pop channel, push the received value (retry paths re-push and rewind)
      Op::Receive => (1, 1),
      // pop channel, peek(0) value which stays as the expression's result
      Op::Send => (2, 1),
      // peek(0) / peek_set(0) or invoke with 0 args whose result replaces the receiver
      Op::IterNext | Op::IterCurrent => (1, 1),
      Op::Drop => (1, 0),
      Op::DropN => (a64, 0),
      Op::Dup => (1, 2),
      Op::Import | Op::ImportSym => (0, 1),
      Op::Export | Op::DeclareModSym => (0, 0),
      Op::LoadGlobal | Op::GetModSym => (0, 1),
      // peek(0)
      Op::SetModSym => (1, 1),
      Op::Box => (0, 0),
      Op::EmptyBox => (0, 1),
      // pop value, peek(0) box
      Op::FillBox => (2, 1),
      Op::GetBox | Op::GetLocal | Op::GetCapture => (0, 1),
      // peek(0)
      Op::SetBox | Op::SetLocal | Op::SetCapture => (1, 1),
      // peek(0), peek_set(0)
      Op::GetPropByName | Op::GetProp => (1, 1),
      // peek(1) instance, pop value, drop instance, push value
      Op::SetPropByName | Op::SetProp => (2, 1),
      Op::JumpIfFalse | Op::CheckHandler => (1, 0),
      Op::Jump | Op::Loop => (0, 0),
      Op::PushHandler | Op::PopHandler | Op::FinishUnwind | Op::ContinueUnwind => (0, 0),
      Op::GetError => (0, 1),
      Op::Raise => (1, 0),
      // callee + args replaced by the result
      Op::Call => (a64 + 1, 1),
      // receiver + args replaced by the result
      Op::Invoke => (b64 + 1, 1),
      // pop the super class, then receiver + args replaced by the result
      Op::SuperInvoke => (b64 + 2, 1),
      Op::Closure | Op::Class => (0, 1),
      // peek(1) class, peek(0) method, drop
      Op::Method | Op::StaticMethod => (2, 1),
      // peek(0) class
      Op::Field => (1, 1),
      // peek(1) super class, peek(0) sub class
      Op::Inherit => (2, 2),
      // pop super class, bind_method: peek(0) / peek_set(0) the receiver
      Op::GetSuper => (2, 1),
    };

    if op == Op::Return && d - pops < self.floor {
      // the generic rule below under its own name: there is no value above the
      // frame's fixed slots to return
      self.finding(
        "return-depth",
        at,
        format!("depth={d} floor={} needs at least {}", self.floor, self.floor + 1),
      );
      self.return_depths.insert(d - self.floor);
      if h != 0 {
        self.finding(
          "return-with-active-handler",
          at,
          format!("handlers={h}"),
        );
      }
      return;
    }
    if d - pops < self.floor {
      self.finding(
        "underflow",
        at,
        format!(
          "{name} depth={d} pops={pops} floor={} (1+{} parameters)",
          self.floor, self.fun.parameter_count
        ),
      );
      return;
    }
    let after = d - pops + pushes;
    let peak = if after > d { after } else { d };
    if peak > self.max_depth {
      self.max_depth = peak;
      self.max_at = at;
    }

    let next = at.checked_add(len);
    let forward = |distance: usize| next.and_then(|next| next.checked_add(distance));

    // -- successors
    match op {
      Op::Return => {
        // `d` still includes the operand and is at least `floor + 1` here
        self.return_depths.insert(d - self.floor);
        if h != 0 {
          self.finding(
            "return-with-active-handler",
            at,
            format!("handlers={h}"),
          );
        }
      },
      Op::Raise => (),
      Op::ContinueUnwind => {
        // pops the handler that caught and goes on unwinding
        if h < 1 {
          self.finding("handler-underflow", at, format!("{name} handlers={h}"));
        }
      },
      Op::Jump => {
        let target = forward(a);
        self.flow(
          at,
          target,
          State {
            depth: after,
            handlers: h,
          },
          false,
        );
      },
      Op::Loop => {
        self.paths_gt1 = true;
        // `op_loop`: the distance is taken from the end of the instruction
        let target = next.and_then(|next| next.checked_sub(a));
        self.flow(
          at,
          target,
          State {
            depth: after,
            handlers: h,
          },
          false,
        );
      },
      Op::JumpIfFalse | Op::CheckHandler => {
        self.paths_gt1 = true;
        let both = State {
          depth: after,
          handlers: h,
        };
        self.flow(at, forward(a), both, false);
        self.flow(at, next, both, true);
      },
      Op::And | Op::Or => {
        self.paths_gt1 = true;
        // the operand stays when jumping and is dropped when falling through
        self.flow(
          at,
          forward(a),
          State {
            depth: after + 1,
            handlers: h,
          },
          false,
        );
        self.flow(
          at,
          next,
          State {
            depth: after,
            handlers: h,
          },
          true,
        );
      },
      Op::PushHandler => {
        self.paths_gt1 = true;
        let recorded = a64;
        if recorded != d {
          self.finding(
            "handler-depth",
            at,
            format!("recorded={recorded} expected={d}"),
          );
        }
        self.handlers.push(HandlerInfo {
          at,
          recorded,
          expected: d,
        });

        // `stack_unwind` enters the catch code with the stack cut to the recorded
        // depth and the catching handler still on the handler stack: it is popped
        // by the PopHandler behind FinishUnwind or by ContinueUnwind. A wrong
        // operand has been reported above, the analysis goes on with the depth
        // that should have been recorded so one defect gives one finding
        let entered = State {
          depth: d,
          handlers: h + 1,
        };
        self.flow(at, forward(b), entered, false);
        self.flow(at, next, entered, true);
      },
      Op::PopHandler => {
        if h < 1 {
          self.finding("handler-underflow", at, format!("{name} handlers={h}"));
          return;
        }
        self.flow(
          at,
          next,
          State {
            depth: after,
            handlers: h - 1,
          },
          true,
        );
      },
      _ => {
        self.flow(
          at,
          next,
          State {
            depth: after,
            handlers: h,
          },
          true,
        );
      },
    }
  }
}

fn const_kind(constant: &ConstDump) -> String {
  match constant {
    ConstDump::Nil => "nil".to_string(),
    ConstDump::Bool(_) => "bool".to_string(),
    ConstDump::Num(_) => "num".to_string(),
    ConstDump::Str(_) => "str".to_string(),
    ConstDump::Fun(_) => "fun".to_string(),
    ConstDump::Other(kind) => format!("other:{kind}"),
  }
}
