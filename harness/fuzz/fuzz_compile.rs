//! libFuzzer target for the Laythe front end (C15) with the bytecode verifier as
//! in-target oracle (C06). bytes -> lossy utf-8 -> scanner, parser, resolver, compiler,
//! peephole pass, encoder; nothing is executed.
#![no_main]
use laythe_env::io::Io;
use laythe_vm::vm::Vm;
use libfuzzer_sys::fuzz_target;
use std::path::PathBuf;

#[path = "@VERIF@/harness/worker/src/proto.rs"]
#[allow(dead_code)]
mod proto;
#[path = "@VERIF@/harness/worker/src/verifier.rs"]
#[allow(dead_code)]
mod verifier;

fn nesting(text: &str) -> usize {
  let mut depth = 0usize;
  let mut max = 0usize;
  for c in text.chars() {
    match c {
      '(' | '[' | '{' => {
        depth += 1;
        max = max.max(depth);
      },
      ')' | ']' | '}' => depth = depth.saturating_sub(1),
      _ => (),
    }
  }
  max
}

fuzz_target!(|data: &[u8]| {
  let text = String::from_utf8_lossy(data);
  // the property excludes unbounded nesting
  if nesting(&text) > 64 {
    return;
  }

  // every iteration gets a fresh vm: no state leaks between inputs
  let mut vm = Vm::new(Io::default());
  if let Some(dump) = vm.verif_compile_dump(PathBuf::from("/v/main.lay"), &text, false) {
    let report = verifier::verify(&dump);
    if let Some(finding) = report.findings.first() {
      panic!("verifier finding: {finding}");
    }
  }
});
